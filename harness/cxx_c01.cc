// C01 correspondence harness: dense matrices / vectors of dune-common vs. the Lean model, with naive loops as oracle.
//
// line:   <K> <op> <operands...>          K = Z (int) | D (double holding small integers)
//                                             | C (std::complex<double> holding Gaussian integers) | P (GF(32003))
// matrix operand  = <REP> <r> <c> <list>   REP = FM | DM | DG | SV | TV<base> | TC<base> | T2<base>
//                   (for TV../TC../T2.. the shape and the entries describe the wrapped / original matrix; TV = transposed
//                    view, TC = transposed copy, T2 = transposed view of a transposed view (logically the stored matrix);
//                    DG lists the diagonal only; a list is flat, two integers per scalar for K = C)
// vector operand  = <FV|DV|SC> <n> <list>  (SC = plain scalar used as a vector of size 1)
// scalar operand  = <list>
// answer: vector -> <list>, matrix -> "<r> <c> <list>", comparison -> true|false
// object histories (several objects, a sequence of operations, the storage behind every object after every operation):
// see "seq" below
#include <config.h>

#include <complex>
#include <functional>
#include <memory>
#include <type_traits>

#include <dune/common/diagonalmatrix.hh>
#include <dune/common/dynmatrix.hh>
#include <dune/common/dynvector.hh>
#include <dune/common/exceptions.hh>
#include <dune/common/fmatrix.hh>
#include <dune/common/fvector.hh>
#include <dune/common/scalarmatrixview.hh>
#include <dune/common/transpose.hh>

#include "hcommon.hh"

using namespace dv;

// ---- GF(32003): a small exact field plugged into the dune-common number interface -------------------------------
struct GF {
  static constexpr long P = 32003;
  std::int32_t v = 0;
  GF() = default;
  template <class T, std::enable_if_t<std::is_integral_v<T>, int> = 0>
  GF(T x) { long long y = (long long)x % P; if (y < 0) y += P; v = (std::int32_t)y; }
  GF(double x) : GF((long long)x) {}
  friend GF operator+(GF a, GF b) { return GF((long)a.v + b.v); }
  friend GF operator-(GF a, GF b) { return GF((long)a.v - b.v); }
  friend GF operator*(GF a, GF b) { return GF((long long)a.v * b.v); }
  GF inv() const {
    long long r = 1, b = v, e = P - 2;
    while (e) { if (e & 1) r = r * b % P; b = b * b % P; e >>= 1; }
    return GF(r);
  }
  friend GF operator/(GF a, GF b) { return a * b.inv(); }
  GF operator-() const { return GF(-(long)v); }
  GF& operator+=(GF b) { return *this = *this + b; }
  GF& operator-=(GF b) { return *this = *this - b; }
  GF& operator*=(GF b) { return *this = *this * b; }
  GF& operator/=(GF b) { return *this = *this / b; }
  friend bool operator==(GF a, GF b) { return a.v == b.v; }
  friend bool operator!=(GF a, GF b) { return a.v != b.v; }
  friend std::ostream& operator<<(std::ostream& s, GF a) { return s << a.v; }
};
namespace Dune {
template <> struct IsNumber<GF> : std::true_type {};
}

using CD = std::complex<double>;

// ---- scalar codecs ---------------------------------------------------------------------------------------------------
template <class K> struct Cd;
template <> struct Cd<int> {
  static constexpr int W = 1;
  static bool dec(const long* p, int& o) { if (p[0] < -100000 || p[0] > 100000) return false; o = (int)p[0]; return true; }
  static bool enc(int v, std::vector<long>& o) { o.push_back(v); return true; }
  static int conj(int v) { return v; }
  static bool divExact(int a, int k) { return k != 0 && a % k == 0; }
  static int quot(int a, int k) { return a / k; }
};
template <> struct Cd<double> {
  static constexpr int W = 1;
  static bool dec(const long* p, double& o) { if (p[0] < -100000 || p[0] > 100000) return false; o = (double)p[0]; return true; }
  static bool enc(double v, std::vector<long>& o) {
    if (!(v == std::floor(v)) || std::fabs(v) > 1e15) { o.push_back(0); return false; }
    o.push_back((long)v);
    return true;
  }
  static double conj(double v) { return v; }
  static bool divExact(double a, double k) { return k != 0 && (long)a % (long)k == 0; }
  static double quot(double a, double k) { return (double)((long)a / (long)k); }
};
// libgcc divides complex numbers by Smith's method (ratio = smaller/larger component of the divisor); the quotient of
// Gaussian integers is exact in double arithmetic when that ratio is: a zero component, equal magnitudes, or a power of
// two as the larger magnitude.  Other divisors are outside the exact-arithmetic domain of this check ("inexact").
static bool smithExact(long c, long d) {
  long a = std::labs(c), b = std::labs(d), mx = std::max(a, b), mn = std::min(a, b);
  return mn == 0 || mn == mx || (mx & (mx - 1)) == 0;
}
template <> struct Cd<CD> {
  static constexpr int W = 2;
  static bool dec(const long* p, CD& o) {
    if (p[0] < -100000 || p[0] > 100000 || p[1] < -100000 || p[1] > 100000) return false;
    o = CD((double)p[0], (double)p[1]);
    return true;
  }
  static bool enc(CD v, std::vector<long>& o) {
    bool a = Cd<double>::enc(v.real(), o);
    bool b = Cd<double>::enc(v.imag(), o);
    return a && b;
  }
  static CD conj(CD v) { return CD(v.real(), -v.imag()); }
  static bool divExact(CD a, CD k) {
    long ar = (long)a.real(), ai = (long)a.imag(), kr = (long)k.real(), ki = (long)k.imag();
    long den = kr * kr + ki * ki;
    if (den == 0 || !smithExact(kr, ki)) return false;
    return (ar * kr + ai * ki) % den == 0 && (ai * kr - ar * ki) % den == 0;
  }
  static CD quot(CD a, CD k) {
    long ar = (long)a.real(), ai = (long)a.imag(), kr = (long)k.real(), ki = (long)k.imag();
    long den = kr * kr + ki * ki;
    return CD((double)((ar * kr + ai * ki) / den), (double)((ai * kr - ar * ki) / den));
  }
};
template <> struct Cd<GF> {
  static constexpr int W = 1;
  static bool dec(const long* p, GF& o) { if (p[0] < 0 || p[0] >= GF::P) return false; o = GF(p[0]); return true; }
  static bool enc(GF v, std::vector<long>& o) { o.push_back(v.v); return v.v >= 0 && v.v < GF::P; }
  static GF conj(GF v) { return v; }
  static bool divExact(GF, GF k) { return k.v != 0; }
  static GF quot(GF a, GF k) {   // brute-force search for the q with q*k = a would be exact too; extended Euclid here
    long r0 = GF::P, r1 = k.v, t0 = 0, t1 = 1;
    while (r1) { long q = r0 / r1, r2 = r0 - q * r1, t2 = t0 - q * t1; r0 = r1; r1 = r2; t0 = t1; t1 = t2; }
    return GF((long long)a.v * ((t0 % GF::P + GF::P) % GF::P));
  }
};

template <class K> bool decList(const std::string& tok, std::vector<K>& out) {
  if (tok.size() < 2 || tok.front() != '[' || tok.back() != ']') return false;
  std::vector<long> raw;
  try { raw = parseList(tok); } catch (...) { return false; }
  if (raw.size() % Cd<K>::W) return false;
  for (size_t i = 0; i < raw.size(); i += Cd<K>::W) {
    K k;
    if (!Cd<K>::dec(&raw[i], k)) return false;
    out.push_back(k);
  }
  return true;
}
template <class K> std::string encList(const std::vector<K>& v, bool& ok) {
  std::vector<long> raw;
  for (auto& k : v) ok = Cd<K>::enc(k, raw) && ok;
  return listStr(raw);
}

// ---- plain operands (the oracle works on these only) ---------------------------------------------------------------
template <class K> struct PM {
  std::string rep, base;
  bool tv = false, tc = false, t2 = false;
  int r = 0, c = 0;            // stored shape
  std::vector<K> e;            // stored entries (diagonal only for DG)
  K st(int i, int j) const { return base == "DG" ? (i == j ? e[i] : K(0)) : e[i * c + j]; }
  bool tr() const { return tv || tc; }
  int R() const { return tr() ? c : r; }   // logical shape / entries
  int C() const { return tr() ? r : c; }
  K at(int i, int j) const { return tr() ? st(j, i) : st(i, j); }
  bool dyn() const { return base == "DM"; }
};
template <class K> struct PV {
  std::string kind;
  int n = 0;
  std::vector<K> e;
};
template <class K> struct Full {
  int r = 0, c = 0;
  std::vector<K> a;
  Full() = default;
  Full(int r_, int c_) : r(r_), c(c_), a((size_t)r_ * c_, K(0)) {}
  K& operator()(int i, int j) { return a[(size_t)i * c + j]; }
  const K& operator()(int i, int j) const { return a[(size_t)i * c + j]; }
};
template <class K> Full<K> logical(const PM<K>& m) {
  Full<K> f(m.R(), m.C());
  for (int i = 0; i < f.r; ++i) for (int j = 0; j < f.c; ++j) f(i, j) = m.at(i, j);
  return f;
}

static int maxDim(const std::string& base) { return base == "DM" ? 6 : base == "SV" ? 1 : 4; }

template <class K> bool parseMat(const std::vector<std::string>& w, size_t& p, PM<K>& m) {
  if (p + 4 > w.size()) return false;
  m.rep = w[p];
  m.base = m.rep;
  if (m.rep.size() == 4 && m.rep.substr(0, 2) == "TV") { m.tv = true; m.base = m.rep.substr(2); }
  else if (m.rep.size() == 4 && m.rep.substr(0, 2) == "T2") { m.t2 = true; m.base = m.rep.substr(2); }
  else if (m.rep.size() == 4 && m.rep.substr(0, 2) == "TC") { m.tc = true; m.base = m.rep.substr(2); }
  if (m.base != "FM" && m.base != "DM" && m.base != "DG" && m.base != "SV") return false;
  if (m.tc && m.base == "SV") return false;
  try { m.r = std::stoi(w[p + 1]); m.c = std::stoi(w[p + 2]); } catch (...) { return false; }
  int mx = maxDim(m.base);
  if (m.r < 1 || m.c < 1 || m.r > mx || m.c > mx) return false;
  if (m.base == "DG" && m.r != m.c) return false;
  if (!decList<K>(w[p + 3], m.e)) return false;
  if ((int)m.e.size() != (m.base == "DG" ? m.r : m.r * m.c)) return false;
  p += 4;
  return true;
}
template <class K> bool parseVec(const std::vector<std::string>& w, size_t& p, PV<K>& v) {
  if (p + 3 > w.size()) return false;
  v.kind = w[p];
  if (v.kind != "FV" && v.kind != "DV" && v.kind != "SC") return false;
  try { v.n = std::stoi(w[p + 1]); } catch (...) { return false; }
  if (1 > v.n || v.n > (v.kind == "DV" ? 6 : v.kind == "SC" ? 1 : 4)) return false;
  if (!decList<K>(w[p + 2], v.e) || (int)v.e.size() != v.n) return false;
  p += 3;
  return true;
}
template <class K> bool parseScalar(const std::vector<std::string>& w, size_t& p, K& s) {
  if (p + 1 > w.size()) return false;
  std::vector<K> l;
  if (!decList<K>(w[p], l) || l.size() != 1) return false;
  s = l[0];
  p += 1;
  return true;
}

// ---- results ---------------------------------------------------------------------------------------------------------
// set when a scalar view that was handed to an operation no longer stands for the scalar it was created from
static bool& viewIncoherent() { static bool f = false; return f; }
static Result badOp(const std::string& why) { return Result{"bad-op", "FAIL harness cannot execute: " + why}; }
static Result inexact() { return Result{"inexact", "ok trivial"}; }

template <class K> Result vecResult(const std::vector<K>& got, const std::vector<K>& expect, const std::string& note) {
  Result r;
  bool ok = true;
  r.impl = encList<K>(got, ok);
  bool ok2 = true;
  if (!ok) r.oracle = "FAIL result holds a non-integer / out-of-range value: " + r.impl;
  else if (got.size() != expect.size() || !std::equal(got.begin(), got.end(), expect.begin()))
    r.oracle = "FAIL result " + r.impl + " but the definition gives " + encList<K>(expect, ok2);
  else if (!note.empty()) r.oracle = "FAIL " + note;
  return r;
}
template <class K> Result matResult(const Full<K>& got, const Full<K>& expect, const std::string& note) {
  Result r = vecResult<K>(got.a, expect.a, note);
  r.impl = std::to_string(got.r) + " " + std::to_string(got.c) + " " + r.impl;
  if (r.oracle == "ok" && (got.r != expect.r || got.c != expect.c)) r.oracle = "FAIL result shape";
  return r;
}
static Result boolResult(bool got, bool expect, const std::string& note) {
  Result r;
  r.impl = got ? "true" : "false";
  if (got != expect) r.oracle = std::string("FAIL comparison gave ") + r.impl;
  else if (!note.empty()) r.oracle = "FAIL " + note;
  return r;
}

// ---- building and reading the real objects ---------------------------------------------------------------------------
template <int N> using IC = std::integral_constant<int, N>;
template <class F> bool withInt(int v, F&& f) {
  switch (v) {
    case 1: f(IC<1>{}); return true;
    case 2: f(IC<2>{}); return true;
    case 3: f(IC<3>{}); return true;
    case 4: f(IC<4>{}); return true;
  }
  return false;
}
template <class T> struct IsTW : std::false_type {};
template <class M> struct IsTW<Dune::Impl::TransposedMatrixWrapper<M>> : std::true_type {};
template <class T> struct IsNestedTW : std::false_type {};
template <class M> struct IsNestedTW<Dune::Impl::TransposedMatrixWrapper<M>> : IsTW<std::decay_t<Dune::ResolveRef_t<M>>> {};
template <class T> struct IsDiag : std::false_type {};
template <class K, int n> struct IsDiag<Dune::DiagonalMatrix<K, n>> : std::true_type {};
template <class M> constexpr bool isStatic = Dune::Impl::IsStaticSizeMatrix_v<M>;
template <class T> struct IsSV : std::false_type {};
template <class K> struct IsSV<Dune::Impl::ScalarMatrixView<K>> : std::true_type {};

template <class K, class M> void fillMat(M& A, const PM<K>& m) {
  if constexpr (IsDiag<M>::value) { for (int i = 0; i < m.r; ++i) A.diagonal(i) = m.e[i]; }
  else { for (int i = 0; i < m.r; ++i) for (int j = 0; j < m.c; ++j) A[i][j] = m.e[i * m.c + j]; }
}
// entries of a non-wrapper matrix object as a full matrix
template <class K, class M> Full<K> readMat(const M& A) {
  Full<K> f((int)A.N(), (int)A.M());
  if constexpr (IsDiag<M>::value) { for (int i = 0; i < f.r; ++i) f(i, i) = A.diagonal(i); }
  else { for (int i = 0; i < f.r; ++i) for (int j = 0; j < f.c; ++j) f(i, j) = A[i][j]; }
  return f;
}
template <class K, class M> bool sameAsStored(const M& A, const PM<K>& m) {
  Full<K> f = readMat<K>(A);
  if (f.r != m.r || f.c != m.c) return false;
  for (int i = 0; i < f.r; ++i) for (int j = 0; j < f.c; ++j) if (f(i, j) != m.st(i, j)) return false;
  return true;
}

enum : unsigned { bFM = 1, bDM = 2, bDG = 4, bSV = 8, bTV = 16, bTC = 32, bALL = 63,
                  bT2 = 64 /* view of a view, static-size bases */, bT2D = 128 /* view of a view of a DynamicMatrix */ };

// Static FieldMatrix shapes instantiated per field type (bit 4*(r-1)+(c-1)); the sets are symmetric under
// transposition and together cover all of 1..4 x 1..4 (compile time of the sanitized harness is the limit).
#ifndef C01_SHAPES_Z
#define C01_SHAPES_Z 0xce73  // 11 12 21 22 23 32 33 34 43 44
#endif
#ifndef C01_SHAPES_D
#define C01_SHAPES_D 0x25a5  // 11 13 31 22 24 42 33
#endif
#ifndef C01_SHAPES_C
#define C01_SHAPES_C 0xffff
#endif
#ifndef C01_SHAPES_P
#define C01_SHAPES_P 0x943b  // 11 12 21 14 41 22 33 44
#endif
template <class K> constexpr unsigned shapeMask = 0;
template <> constexpr unsigned shapeMask<int> = C01_SHAPES_Z;
template <> constexpr unsigned shapeMask<double> = C01_SHAPES_D;
template <> constexpr unsigned shapeMask<CD> = C01_SHAPES_C;
template <> constexpr unsigned shapeMask<GF> = C01_SHAPES_P;
constexpr bool shapeIn(unsigned mask, int r, int c) { return r >= 1 && r <= 4 && c >= 1 && c <= 4 && ((mask >> (4 * (r - 1) + (c - 1))) & 1u); }
template <class K> constexpr bool fmShape(int r, int c) { return shapeIn(shapeMask<K>, r, c); }
static bool shapeAllowed(char field, int r, int c) {
  return shapeIn(field == 'Z' ? shapeMask<int> : field == 'D' ? shapeMask<double> : field == 'C' ? shapeMask<CD> : shapeMask<GF>, r, c);
}

// "rare" static shapes: the rarely used combinations (views of views, a view as left factor, mixed vector kinds) are
// instantiated for these FieldMatrix shapes only (compile time of the sanitized harness)
constexpr bool rareShape(int r, int c) { return r != c && r + c >= 5; }
constexpr bool mixedKindShape(int r, int c) { return r != c && r + c >= 6; }
template <class M> constexpr bool rareFM() {
  if constexpr (Dune::Impl::IsFieldMatrix_v<M>) return rareShape(M::rows, M::cols); else return true;
}
// a view as LEFT factor of operator*: views of FieldMatrix objects only for the rare shapes
template <class M> constexpr bool leftFactorInstantiated() {
  if constexpr (IsTW<M>::value) return rareFM<std::remove_cv_t<typename M::WrappedMatrix>>(); else return true;
}
template <class M> constexpr int sRows() { if constexpr (isStatic<M>) return M::rows; else return 0; }
template <class M> constexpr int sCols() { if constexpr (isStatic<M>) return M::cols; else return 0; }

// call f(object) with the stored (un-transposed) object of the operand's base representation.
// `mut`: f may modify the object; otherwise the object is compared with the operand afterwards.
// FR / FC != 0 fix the stored number of rows / columns at compile time (fewer instantiations).
template <class K, unsigned MASK, int FR = 0, int FC = 0, class F>
bool withStored(const PM<K>& m, bool mut, bool& modified, F&& f) {
  if ((FR && m.r != FR) || (FC && m.c != FC)) return false;
  bool done = false;
  auto after = [&](auto& A) { if (!mut && !sameAsStored<K>(A, m)) modified = true; done = true; };
  if (m.base == "FM") {
    if constexpr (MASK & bFM) {
      auto mk = [&](auto R, auto C) {
        if constexpr (fmShape<K>(decltype(R)::value, decltype(C)::value)) {
          Dune::FieldMatrix<K, decltype(R)::value, decltype(C)::value> A;
          fillMat<K>(A, m); f(A); after(A);
        }
      };
      if constexpr (FR != 0 && FC != 0) mk(IC<FR>{}, IC<FC>{});
      else if constexpr (FR != 0) withInt(m.c, [&](auto C) { mk(IC<FR>{}, C); });
      else if constexpr (FC != 0) withInt(m.r, [&](auto R) { mk(R, IC<FC>{}); });
      else withInt(m.r, [&](auto R) { withInt(m.c, [&](auto C) { mk(R, C); }); });
    }
  } else if (m.base == "DM") {
    if constexpr (MASK & bDM) { Dune::DynamicMatrix<K> A(m.r, m.c, K(0)); fillMat<K>(A, m); f(A); after(A); }
  } else if (m.base == "DG") {
    if constexpr ((MASK & bDG) && (FR == 0 || FC == 0 || FR == FC)) {
      auto mk = [&](auto N) { Dune::DiagonalMatrix<K, decltype(N)::value> A; fillMat<K>(A, m); f(A); after(A); };
      constexpr int FN = FR ? FR : FC;
      if constexpr (FN != 0) mk(IC<FN>{}); else withInt(m.r, mk);
    }
  } else if (m.base == "SV") {
    if constexpr ((MASK & bSV) && (FR == 0 || FR == 1) && (FC == 0 || FC == 1)) {
      K s = m.e[0]; auto A = Dune::Impl::asMatrix(s); f(A); after(A);
      // the view is a handle onto `s`: what it shows and what the scalar variable holds must stay the same thing
      if (!(A[0][0] == s)) viewIncoherent() = true;
      if (!mut && !(s == m.e[0])) modified = true;
    }
  }
  return done;
}
// call f(object) with the operand as it is meant: plain, transposed copy (TC..) or transposed view (TV..);
// LR / LC != 0 fix the LOGICAL number of rows / columns at compile time
template <class K, unsigned MASK, int LR = 0, int LC = 0, class F>
bool withMat(const PM<K>& m, bool mut, bool& modified, F&& f) {
  if (m.tc) {
    if constexpr (MASK & bTC)
      return withStored<K, MASK & (bFM | bDM | bDG), LC, LR>(m, false, modified, [&](auto& A) {
        if (m.r % 2) { auto T = A.transposed(); f(T); } else { auto T = Dune::transpose(A); f(T); } });
    return false;
  }
  if (m.tv) {
    if constexpr (MASK & bTV)
      return withStored<K, MASK, LC, LR>(m, false, modified, [&](auto& A) {
        if (m.c % 2) { auto V = Dune::transposedView(A); f(V); }
        else { auto V = Dune::transpose(std::cref(A)); f(V); } });
    return false;
  }
  if (m.t2) {
    // transposed view of a transposed view: logically the stored matrix again.  The two spellings differ in type:
    // transpose(V) stores a copy of the inner wrapper, transposedView(V) a reference to it.
    constexpr unsigned BASES = (MASK & bT2 ? (bFM | bDG | bSV) : 0u) | (MASK & bT2D ? bDM : 0u);
    if constexpr (BASES != 0)
      return withStored<K, MASK & BASES, LR, LC>(m, false, modified, [&](auto& A) {
        if constexpr (rareFM<std::decay_t<decltype(A)>>()) {
          if (m.r % 2) { auto X = Dune::transpose(Dune::transposedView(A)); f(X); }
          else { auto V = Dune::transposedView(A); auto X = Dune::transposedView(V); f(X); }
        } });
    return false;
  }
  return withStored<K, MASK, LR, LC>(m, mut, modified, f);
}

template <class K, class V> void fillVec(V& v, const std::vector<K>& e) {
  if constexpr (std::is_same_v<V, K>) v = e[0];
  else for (size_t i = 0; i < e.size(); ++i) v[i] = e[i];
}
template <class K, class V> std::vector<K> readVec(const V& v, size_t n) {
  std::vector<K> o;
  if constexpr (std::is_same_v<V, K>) o.push_back(v);
  else { n = v.size(); for (size_t i = 0; i < n; ++i) o.push_back(v[i]); }
  return o;
}

// ---- the eleven kernels ----------------------------------------------------------------------------------------------
struct KDef { const char* name; char mode; char tr; bool alpha; };   // mode '=' '+' '-', tr 'N' 'T' 'H'
static const KDef KDEFS[] = {
    {"mv", '=', 'N', false},   {"mtv", '=', 'T', false},  {"umv", '+', 'N', false},  {"umtv", '+', 'T', false},
    {"umhv", '+', 'H', false}, {"mmv", '-', 'N', false},  {"mmtv", '-', 'T', false}, {"mmhv", '-', 'H', false},
    {"usmv", '+', 'N', true},  {"usmtv", '+', 'T', true}, {"usmhv", '+', 'H', true}};
static const KDef* kdef(const std::string& n) { for (auto& k : KDEFS) if (n == k.name) return &k; return nullptr; }

// oracle: the definition, on the logical matrix
template <class K> std::vector<K> kernelOracle(const KDef& k, const PM<K>& A, K alpha, const std::vector<K>& x, std::vector<K> y) {
  int R = A.R(), C = A.C();
  int outN = k.tr == 'N' ? R : C, inN = k.tr == 'N' ? C : R;
  for (int i = 0; i < outN; ++i) {
    K s = K(0);
    for (int j = 0; j < inN; ++j) {
      K a = k.tr == 'N' ? A.at(i, j) : A.at(j, i);
      if (k.tr == 'H') a = Cd<K>::conj(a);
      s = s + a * x[j];
    }
    if (k.alpha) s = alpha * s;
    y[i] = k.mode == '=' ? s : k.mode == '+' ? y[i] + s : y[i] - s;
  }
  return y;
}

template <bool T, class M, class K, class X, class Y> bool callKernel(const M& A, const std::string& n, const K& alpha, const X& x, Y& y) {
  if constexpr (IsTW<M>::value) {
    if constexpr (!T) { if (n == "mv") { A.mv(x, y); return true; } }
    else { if (n == "mtv") { A.mtv(x, y); return true; } }
    return false;
  } else if constexpr (!T) {
    if (n == "mv") A.mv(x, y);
    else if (n == "umv") A.umv(x, y);
    else if (n == "mmv") A.mmv(x, y);
    else if (n == "usmv") A.usmv(alpha, x, y);
    else return false;
    return true;
  } else {
    if (n == "mtv") A.mtv(x, y);
    else if (n == "umtv") A.umtv(x, y);
    else if (n == "umhv") A.umhv(x, y);
    else if (n == "mmtv") A.mmtv(x, y);
    else if (n == "mmhv") A.mmhv(x, y);
    else if (n == "usmtv") A.usmtv(alpha, x, y);
    else if (n == "usmhv") A.usmhv(alpha, x, y);
    else return false;
    return true;
  }
}

template <class K, bool T, class X, class Y, class M>
bool kernelXY(const M& A, const std::string& n, const K& alpha, const PV<K>& x, const PV<K>& y, X& xv, Y& yv, std::vector<K>& out, bool& xmod) {
  fillVec<K>(xv, x.e);
  fillVec<K>(yv, y.e);
  if (!callKernel<T>(A, n, alpha, const_cast<const X&>(xv), yv)) return false;
  out = readVec<K>(yv, y.e.size());
  if (readVec<K>(xv, x.e.size()) != x.e) xmod = true;
  return true;
}

template <class K, bool T, class M>
bool kernelOn(const M& A, const std::string& n, const K& alpha, const PV<K>& x, const PV<K>& y, std::vector<K>& out, bool& xmod) {
  if constexpr (isStatic<M>) {
    constexpr int XS = T ? M::rows : M::cols, YS = T ? M::cols : M::rows;
    if (x.n != XS || y.n != YS) return false;
    if (x.kind == "FV" && y.kind == "FV") {
      Dune::FieldVector<K, XS> xv; Dune::FieldVector<K, YS> yv;
      return kernelXY<K, T>(A, n, alpha, x, y, xv, yv, out, xmod);
    }
    if constexpr (XS == 1 && YS == 1) {
      if (x.kind == "SC" && y.kind == "SC") { K xv, yv; return kernelXY<K, T>(A, n, alpha, x, y, xv, yv, out, xmod); }
    }
    // vector representations are interchangeable as kernel arguments: DynamicVector / mixed kinds with a static-size
    // matrix (instantiated for FieldMatrix objects of the `mixedKindShape`s only, compile time)
    if constexpr (Dune::Impl::IsFieldMatrix_v<M> && mixedKindShape(M::rows, M::cols)) {
      if (x.kind == "DV" && y.kind == "DV") {
        Dune::DynamicVector<K> xv(x.n), yv(y.n);
        return kernelXY<K, T>(A, n, alpha, x, y, xv, yv, out, xmod);
      }
      if (x.kind == "FV" && y.kind == "DV") {
        Dune::FieldVector<K, XS> xv; Dune::DynamicVector<K> yv(y.n);
        return kernelXY<K, T>(A, n, alpha, x, y, xv, yv, out, xmod);
      }
      if (x.kind == "DV" && y.kind == "FV") {
        Dune::DynamicVector<K> xv(x.n); Dune::FieldVector<K, YS> yv;
        return kernelXY<K, T>(A, n, alpha, x, y, xv, yv, out, xmod);
      }
    }
    return false;
  } else {
    if (x.kind != "DV" || y.kind != "DV") return false;
    Dune::DynamicVector<K> xv(x.n), yv(y.n);
    return kernelXY<K, T>(A, n, alpha, x, y, xv, yv, out, xmod);
  }
}

template <class K> Result execKernel(const KDef& kd, const std::vector<std::string>& w) {
  size_t p = 2;
  PM<K> A; K alpha; PV<K> x, y;
  if (!parseMat<K>(w, p, A) || !parseScalar<K>(w, p, alpha) || !parseVec<K>(w, p, x) || !parseVec<K>(w, p, y) || p != w.size())
    return badOp("kernel operands");
  bool tr = kd.tr != 'N';
  if (x.n != (tr ? A.R() : A.C()) || y.n != (tr ? A.C() : A.R())) return badOp("kernel vector sizes");
  std::vector<K> out;
  bool amod = false, xmod = false, ran = false;
  std::string n = kd.name;
  withMat<K, bALL | bT2 | bT2D>(A, false, amod, [&](auto& M) {
    ran = tr ? kernelOn<K, true>(M, n, alpha, x, y, out, xmod) : kernelOn<K, false>(M, n, alpha, x, y, out, xmod);
  });
  if (!ran) return badOp("kernel not available for this representation / vector kind");
  stat("kernel_" + n); stat("rep_" + A.rep); stat("xykind_" + x.kind + "," + y.kind);
  stat("shape_" + std::to_string(A.r) + "x" + std::to_string(A.c));
  return vecResult<K>(out, kernelOracle<K>(kd, A, alpha, x.e, y.e), amod ? "matrix operand modified" : xmod ? "x modified" : "");
}

// ---- matrix-matrix products ------------------------------------------------------------------------------------------
template <class K> Full<K> mulOracle(const Full<K>& A, const Full<K>& B) {
  Full<K> Cm(A.r, B.c);
  for (int i = 0; i < A.r; ++i)
    for (int j = 0; j < B.c; ++j) {
      K s = K(0);
      for (int k = 0; k < A.c; ++k) s = s + A(i, k) * B(k, j);
      Cm(i, j) = s;
    }
  return Cm;
}
template <class A, class B> using MulT = decltype(std::declval<const A&>() * std::declval<const B&>());
template <class A, class B, class = void> struct CanMul : std::false_type {};
template <class A, class B> struct CanMul<A, B, std::void_t<MulT<A, B>>> : std::true_type {};

template <class K> Result execMul(const std::vector<std::string>& w) {
  size_t p = 2;
  PM<K> A, B;
  if (!parseMat<K>(w, p, A) || !parseMat<K>(w, p, B) || p != w.size()) return badOp("mul operands");
  if (A.C() != B.R()) return badOp("mul inner dimension");
  bool amod = false, bmod = false, ran = false;
  Full<K> got;
  // the pairs of representations for which dune-common offers operator*
  auto go = [&](auto maskA, auto maskB) {
    constexpr unsigned MASKA = decltype(maskA)::value, MASKB = decltype(maskB)::value;
    withMat<K, MASKA>(A, false, amod, [&](auto& MA) {
      using TA = std::decay_t<decltype(MA)>;
      constexpr bool leftOK = leftFactorInstantiated<TA>();
      if constexpr (leftOK)
        withMat<K, MASKB, sCols<TA>(), 0>(B, false, bmod, [&](auto& MB) {
          using TB = std::decay_t<decltype(MB)>;
          // a view of a view as right factor: for the rare shapes of the left FieldMatrix only
          constexpr bool rightOK = !IsNestedTW<TB>::value || rareFM<TA>();
          if constexpr (rightOK && CanMul<TA, TB>::value) { auto Cm = MA * MB; got = readMat<K>(Cm); ran = true; }
        });
    });
  };
  using UM = unsigned;
  const bool aView = A.tv || A.t2, bView = B.tv || B.t2;
  if (aView && bView) return badOp("no operator* for two views");
  if (aView) {
    // view * FieldMatrix: fmatrix.hh `OtherMatrix * FieldMatrix` (the view must have static size)
    if (B.base == "FM") {
      if (A.tv && !B.tc) go(std::integral_constant<UM, bFM | bDG | bSV | bTV>{}, std::integral_constant<UM, bFM>{});
    }
  } else if (B.t2) {
    // FieldMatrix * view-of-a-view (static size): fmatrix.hh `FieldMatrix * OtherMatrix`
    if (A.base == "FM" && !A.tc) go(std::integral_constant<UM, bFM>{}, std::integral_constant<UM, bDG | bSV | bT2>{});
  } else if (B.tv) {
    if (A.base == "FM" && !A.tv) go(std::integral_constant<unsigned, bFM | bTC>{}, std::integral_constant<unsigned, bFM | bDM | bDG | bSV | bTV>{});
    else if (A.base == "DM" && !A.tv) go(std::integral_constant<unsigned, bDM | bTC>{}, std::integral_constant<unsigned, bFM | bDM | bDG | bTV>{});
  } else if (!A.tv) {
    if (A.base == "FM" && (B.base == "FM" || B.base == "DG" || B.base == "SV"))
      go(std::integral_constant<unsigned, bFM | bTC>{}, std::integral_constant<unsigned, bFM | bDG | bSV | bTC>{});
    else if ((A.base == "DG" || A.base == "SV") && B.base == "FM")
      go(std::integral_constant<unsigned, bDG | bSV | bTC>{}, std::integral_constant<unsigned, bFM | bTC>{});
    else if (A.base == "DG" && B.base == "DG")
      go(std::integral_constant<unsigned, bDG | bTC>{}, std::integral_constant<unsigned, bDG | bTC>{});
  }
  if (!ran) return badOp("no operator* for this pair of representations");
  stat("mul_" + A.rep + "x" + B.rep);
  stat("mulshape_" + std::to_string(A.R()) + "x" + std::to_string(A.C()) + "x" + std::to_string(B.C()));
  return matResult<K>(got, mulOracle<K>(logical(A), logical(B)), amod || bmod ? "operand modified" : "");
}

// leftmultiply / rightmultiply / leftmultiplyany / rightmultiplyany / FMatrixHelp
template <class K> Result execMulInPlace(const std::string& op, const std::vector<std::string>& w) {
  size_t p = 2;
  PM<K> A, M;
  if (!parseMat<K>(w, p, A) || !parseMat<K>(w, p, M) || p != w.size()) return badOp("operands");
  if (A.tr() || M.tr()) return badOp("plain representations only");
  bool left = op == "leftmultiply" || op == "leftmultiplyany";
  bool any = op == "leftmultiplyany" || op == "rightmultiplyany" || op == "multmatrix";
  Full<K> fa = logical(A), fm = logical(M), expect;
  if (op == "multmatrix") { if (A.c != M.r) return badOp("shape"); expect = mulOracle<K>(fa, fm); }
  else if (left) { if (M.c != A.r || (!any && M.r != M.c)) return badOp("shape"); expect = mulOracle<K>(fm, fa); }
  else { if (M.r != A.c || (!any && M.r != M.c)) return badOp("shape"); expect = mulOracle<K>(fa, fm); }
  bool amod = false, mmod = false, ran = false;
  Full<K> got;
  if (any) {
    if (A.base != "FM" || M.base != "FM") return badOp("FieldMatrix only");
    withStored<K, bFM>(A, false, amod, [&](auto& MA) {
      using TA = std::decay_t<decltype(MA)>;
      if (op == "leftmultiplyany")
        withStored<K, bFM, 0, TA::rows>(M, false, mmod, [&](auto& MM) {
          using TM = std::decay_t<decltype(MM)>;
          auto Cm = MA.template leftmultiplyany<TM::rows>(MM); got = readMat<K>(Cm); ran = true; });
      else
        withStored<K, bFM, TA::cols, 0>(M, false, mmod, [&](auto& MM) {
          using TM = std::decay_t<decltype(MM)>;
          if (op == "rightmultiplyany") { auto Cm = MA.template rightmultiplyany<TM::cols>(MM); got = readMat<K>(Cm); ran = true; }
          else {
            Dune::FieldMatrix<K, TA::rows, TM::cols> Cm(K(7));
            Dune::FMatrixHelp::multMatrix(MA, MM, Cm);
            got = readMat<K>(Cm); ran = true;
          } });
    });
  } else {
    // M is square; when *this has a static size, M's size is fixed by it
    auto withSquare = [&](auto N, auto&& f2) {
      constexpr int n = decltype(N)::value;
      if constexpr (n != 0) withStored<K, bFM | bDM | bSV, n, n>(M, false, mmod, f2);
      else if (M.base == "FM") withInt(M.r, [&](auto Q) { withStored<K, bFM, decltype(Q)::value, decltype(Q)::value>(M, false, mmod, f2); });
      else withStored<K, bDM | bSV>(M, false, mmod, f2);
    };
    withStored<K, bFM | bDM | bSV>(A, true, amod, [&](auto& MA) {
      using TA = std::decay_t<decltype(MA)>;
      if (left) withSquare(IC<sRows<TA>()>{}, [&](auto& MM) { auto& R = MA.leftmultiply(MM); got = readMat<K>(R); ran = (&R == &MA); });
      else withSquare(IC<sCols<TA>()>{}, [&](auto& MM) { auto& R = MA.rightmultiply(MM); got = readMat<K>(R); ran = (&R == &MA); });
    });
  }
  if (!ran) return badOp(op + " not available for this pair");
  stat("op_" + op); stat(op + "_" + A.rep + "," + M.rep);
  return matResult<K>(got, expect, mmod || (any && amod) ? "operand modified" : "");
}

// transposed(), transpose(), asDense(), FMatrixHelp::multTransposedMatrix
template <class K> Result execUnaryMat(const std::string& op, const std::vector<std::string>& w) {
  size_t p = 2;
  PM<K> A;
  if (!parseMat<K>(w, p, A) || p != w.size()) return badOp("operand");
  Full<K> la = logical(A);
  bool amod = false, ran = false;
  Full<K> got, expect;
  if (op == "transposed") {
    expect = Full<K>(la.c, la.r);
    for (int i = 0; i < la.r; ++i) for (int j = 0; j < la.c; ++j) expect(j, i) = la(i, j);
    withMat<K, bALL>(A, false, amod, [&](auto& M) {
      using TM = std::decay_t<decltype(M)>;
      if constexpr (IsTW<TM>::value) {
        // the view of the transposed matrix, copied out; transposing that copy once more must give the wrapped matrix
        auto D = M.asDense(); got = readMat<K>(D); ran = true;
        // here `got` is the logical matrix itself; report its transposed so that every rep answers the same question
        Full<K> t(got.c, got.r);
        for (int i = 0; i < got.r; ++i) for (int j = 0; j < got.c; ++j) t(j, i) = got(i, j);
        got = t;
      } else if constexpr (IsSV<TM>::value) {
        // ScalarMatrixView has no transposed(): transpose() wraps it
        auto V = Dune::transpose(M); auto D = V.asDense(); got = readMat<K>(D); ran = true;
      } else {
        auto T = M.transposed(); got = readMat<K>(T); ran = true;
      }
    });
  } else if (op == "multtm") {
    if (A.tr() || A.base != "FM") return badOp("FieldMatrix only");
    Full<K> lt(la.c, la.r);
    for (int i = 0; i < la.r; ++i) for (int j = 0; j < la.c; ++j) lt(j, i) = la(i, j);
    expect = mulOracle<K>(lt, la);
    withStored<K, bFM>(A, false, amod, [&](auto& M) {
      using TM = std::decay_t<decltype(M)>;
      Dune::FieldMatrix<K, TM::cols, TM::cols> R(K(5));
      Dune::FMatrixHelp::multTransposedMatrix(M, R);
      got = readMat<K>(R); ran = true;
    });
  }
  if (!ran) return badOp(op + " not available");
  stat("op_" + op); stat(op + "_" + A.rep);
  return matResult<K>(got, expect, amod ? "operand modified" : "");
}

// ---- vector-space operations on matrices -----------------------------------------------------------------------------
template <class K> Result execMatVS(const std::string& op, const std::vector<std::string>& w) {
  size_t p = 2;
  PM<K> A, B;
  K s = K(0);
  bool two = op == "madd" || op == "msub" || op == "mplus" || op == "mminus" || op == "maxpy" || op == "meq" || op == "mne";
  bool sc = op == "mscale" || op == "mdiv" || op == "mtimes" || op == "mltimes" || op == "mover" || op == "maxpy";
  if (!parseMat<K>(w, p, A)) return badOp("operand");
  if (sc && !parseScalar<K>(w, p, s)) return badOp("scalar");
  if (two && !parseMat<K>(w, p, B)) return badOp("operand");
  if (p != w.size()) return badOp("trailing tokens");
  if (A.tr() || (two && B.tr())) return badOp("plain representations only");
  if (two && (A.r != B.r || A.c != B.c)) return badOp("shape");
  Full<K> la = logical(A), lb = two ? logical(B) : Full<K>(), expect(la.r, la.c);
  bool div = op == "mdiv" || op == "mover";
  bool diagOnly = A.base == "DG";
  for (int i = 0; i < la.r; ++i)
    for (int j = 0; j < la.c; ++j) {
      K a = la(i, j), r = a;
      if (div && (!diagOnly || i == j) && !Cd<K>::divExact(a, s)) return inexact();
      if (op == "madd" || op == "mplus") r = a + lb(i, j);
      else if (op == "msub" || op == "mminus") r = a - lb(i, j);
      else if (op == "mscale" || op == "mtimes") r = a * s;
      else if (op == "mltimes") r = s * a;
      else if (div) r = (!diagOnly || i == j) ? Cd<K>::quot(a, s) : K(0);
      else if (op == "maxpy") r = a + s * lb(i, j);
      else if (op == "mneg") r = K(0) - a;
      expect(i, j) = r;
    }
  bool cmp = op == "meq" || op == "mne";
  bool eqExpect = la.a == lb.a;
  bool amod = false, bmod = false, ran = false, bres = false;
  Full<K> got;
  bool inplace = op == "madd" || op == "msub" || op == "mscale" || op == "mdiv" || op == "maxpy";
  std::vector<K> storedAfter;
  bool haveStored = false;
  if (two) {
    auto body = [&](auto& MA, auto& MB) {
      using TA = std::decay_t<decltype(MA)>;
      using TB = std::decay_t<decltype(MB)>;
      constexpr bool bothFM = Dune::Impl::IsFieldMatrix_v<TA> && Dune::Impl::IsFieldMatrix_v<TB>;
      constexpr bool compat = [] { if constexpr (isStatic<TA> && isStatic<TB>) return TA::rows == TB::rows && TA::cols == TB::cols; else return true; }();
      if constexpr (compat) {
        if (op == "madd") { if constexpr (requires { MA += MB; }) { auto& R = (MA += MB); got = readMat<K>(R); ran = (&R == &MA); } }
        else if (op == "msub") { if constexpr (requires { MA -= MB; }) { auto& R = (MA -= MB); got = readMat<K>(R); ran = (&R == &MA); } }
        else if (op == "meq") { bres = (std::as_const(MA) == MB); ran = true; }
        else if (op == "mne") { bres = (std::as_const(MA) != MB); ran = true; }
        else if constexpr (!IsDiag<TA>::value) {
          if (op == "maxpy") { auto& R = MA.axpy(s, MB); got = readMat<K>(R); ran = (&R == &MA); }
          else if constexpr (bothFM) {
            if (op == "mplus") { auto R = std::as_const(MA) + MB; got = readMat<K>(R); ran = true; }
            else if (op == "mminus") { auto R = std::as_const(MA) - MB; got = readMat<K>(R); ran = true; }
          }
        }
      }
    };
    if (A.base == "DG" || B.base == "DG") {
      if (A.base == "DG" && B.base == "DG")
        withStored<K, bDG>(A, inplace, amod, [&](auto& MA) {
          using TA = std::decay_t<decltype(MA)>;
          withStored<K, bDG, TA::rows, TA::cols>(B, false, bmod, [&](auto& MB) { body(MA, MB); }); });
    } else {
      withStored<K, bFM | bDM | bSV>(A, inplace, amod, [&](auto& MA) {
        using TA = std::decay_t<decltype(MA)>;
        withStored<K, bFM | bDM | bSV, sRows<TA>(), sCols<TA>()>(B, false, bmod, [&](auto& MB) { body(MA, MB); }); });
    }
  } else {
    withStored<K, bFM | bDM | bDG | bSV>(A, inplace, amod, [&](auto& MA) {
      using TA = std::decay_t<decltype(MA)>;
      if (op == "mscale") { auto& R = (MA *= s); got = readMat<K>(R); ran = (&R == &MA); }
      else if (op == "mdiv") { auto& R = (MA /= s); got = readMat<K>(R); ran = (&R == &MA); }
      else if constexpr (!IsDiag<TA>::value) {
        if (op == "mneg") {
          auto R = -std::as_const(MA); got = readMat<K>(R); ran = true;
          // a scalar view: what the viewed scalar holds after the call is part of the answer
          if constexpr (IsSV<TA>::value) { storedAfter = {MA[0][0]}; haveStored = true; }
        } else if constexpr (Dune::Impl::IsFieldMatrix_v<TA>) {
          if (op == "mtimes") { auto R = std::as_const(MA) * s; got = readMat<K>(R); ran = true; }
          else if (op == "mltimes") { auto R = s * std::as_const(MA); got = readMat<K>(R); ran = true; }
          else if (op == "mover") { auto R = std::as_const(MA) / s; got = readMat<K>(R); ran = true; }
        }
      }
    });
  }
  if (!ran) return badOp(op + " not available for this representation");
  stat("op_" + op); stat(op + "_" + A.rep + (two ? "," + B.rep : ""));
  std::string note = bmod || (!inplace && amod) ? "operand modified" : "";
  if (cmp) return boolResult(bres, op == "meq" ? eqExpect : !eqExpect, note);
  Result res = matResult<K>(got, expect, note);
  if (haveStored) {
    bool ok = true;
    res.impl += " stored=" + encList<K>(storedAfter, ok);
    if (res.oracle == "ok" && storedAfter != A.e) res.oracle = "FAIL the scalar behind the view is " + encList<K>(storedAfter, ok) + " after the call, it was " + encList<K>(A.e, ok) + " (operand modified)";
  }
  return res;
}

// ---- vector-space operations on vectors ------------------------------------------------------------------------------
template <class K, int FN = 0, class F> bool withVec(const PV<K>& v, F&& f) {
  bool done = false;
  if (FN && v.n != FN) return false;
  if (v.kind == "FV") {
    auto mk = [&](auto N) { Dune::FieldVector<K, decltype(N)::value> x; fillVec<K>(x, v.e); f(x); done = true; };
    if constexpr (FN != 0) mk(IC<FN>{}); else withInt(v.n, mk);
  }
  else if (v.kind == "DV") { Dune::DynamicVector<K> x(v.n); fillVec<K>(x, v.e); f(x); done = true; }
  return done;
}
template <class K, class F> bool withVecAny(const PV<K>& v, F&& f) { return withVec<K>(v, f); }
template <class V> constexpr bool isFV = false;
template <class K, int n> constexpr bool isFV<Dune::FieldVector<K, n>> = true;
template <class V> constexpr int fvSize = -1;
template <class K, int n> constexpr int fvSize<Dune::FieldVector<K, n>> = n;

template <class K> Result execVec(const std::string& op, const std::vector<std::string>& w) {
  size_t p = 2;
  PV<K> a, b;
  K s = K(0);
  bool ordvv = op == "v1_lt_v1" || op == "v1_le_v1" || op == "v1_gt_v1" || op == "v1_ge_v1";
  bool ordvs = op == "v1_lt_s" || op == "v1_le_s" || op == "v1_gt_s" || op == "v1_ge_s" || op == "s_lt_v1" || op == "s_le_v1" ||
               op == "s_gt_v1" || op == "s_ge_v1";
  bool two = op == "vadd" || op == "vsub" || op == "vplus" || op == "vminus" || op == "vaxpy" || op == "veq" || op == "vne" ||
             op == "vdotT" || op == "vdot" || op == "fdot" || op == "fdotT" || ordvv;
  bool sc = !two && op != "vneg" && op != "v1_conv";
  if (op == "vaxpy") sc = true;
  if ((ordvv || ordvs) && !std::is_arithmetic_v<K>) return badOp("ordering comparison for an unordered field");
  if (!parseVec<K>(w, p, a)) return badOp("operand");
  if (sc && !parseScalar<K>(w, p, s)) return badOp("scalar");
  if (two && !parseVec<K>(w, p, b)) return badOp("operand");
  if (p != w.size()) return badOp("trailing tokens");
  if (two && a.n != b.n) return badOp("sizes");
  size_t n = a.n;
  std::vector<K> expect(n);
  bool div = op == "vdiv" || op == "vover" || op == "v1_over_s" || op == "s_over_v1";
  K dotT = K(0), dotH = K(0);
  for (size_t i = 0; i < n; ++i) {
    K x = a.e[i], y = two ? b.e[i] : K(0), r = x;
    if (div && !(op == "s_over_v1" ? Cd<K>::divExact(s, x) : Cd<K>::divExact(x, s))) return inexact();
    if (op == "vadd" || op == "vplus") r = x + y;
    else if (op == "vsub" || op == "vminus") r = x - y;
    else if (op == "vneg") r = K(0) - x;
    else if (op == "vadds" || op == "v1_plus_s" || op == "s_plus_v1") r = x + s;
    else if (op == "vsubs" || op == "v1_minus_s") r = x - s;
    else if (op == "s_minus_v1") r = s - x;
    else if (op == "vscale" || op == "vtimes" || op == "vltimes" || op == "v1_times_s" || op == "s_times_v1") r = x * s;
    else if (op == "s_over_v1") r = Cd<K>::quot(s, x);
    else if (div) r = Cd<K>::quot(x, s);
    else if (op == "vaxpy") r = x + s * y;
    dotT = dotT + x * y;
    dotH = dotH + Cd<K>::conj(x) * y;
    expect[i] = r;
  }
  bool ran = false, bres = false, amod = false, bmod = false;
  std::vector<K> got;
  bool cmp = op == "veq" || op == "vne" || op == "v1_eq_s" || op == "s_ne_v1" || op == "v1_ne_s" || op == "s_eq_v1" || ordvv || ordvs;
  bool scalarOut = op == "vdotT" || op == "vdot" || op == "fdot" || op == "fdotT" || op == "v1_conv";
  if (a.kind == "SC") {
    // free functions on plain scalars
    if (op == "vneg" && !two) {
      // unary minus of the view asVector(s): the result and what the scalar s holds afterwards
      K s0 = a.e[0];
      auto V = Dune::Impl::asVector(s0);
      auto R = -std::as_const(V);
      got = readVec<K>(R, 1);
      K shown = V[0];
      if (!(shown == s0)) viewIncoherent() = true;
      bool ok = true;
      stat("op_vneg"); stat("vneg_SC"); stat("vsize_1");
      Result res = vecResult<K>(got, expect, "");
      res.impl += " stored=" + encList<K>(std::vector<K>{s0}, ok);
      if (res.oracle == "ok" && !(s0 == a.e[0])) res.oracle = "FAIL the scalar behind the view is " + encList<K>(std::vector<K>{s0}, ok) + " after the call, it was " + encList<K>(a.e, ok) + " (operand modified)";
      return res;
    }
    if ((op == "vplus" || op == "vminus") && two && b.kind != "SC") {
      // asVector(s) + v, asVector(s) - v: the result and what the scalar s holds afterwards (s is an operand taken as input only)
      K s0 = a.e[0];
      auto V = Dune::Impl::asVector(s0);
      bool bmodv = false;
      bool done = withVec<K, 1>(b, [&](auto& y) {
        if (op == "vplus") { auto R = std::as_const(V) + y; got = readVec<K>(R, 1); }
        else { auto R = std::as_const(V) - y; got = readVec<K>(R, 1); }
        if (readVec<K>(y, 1) != b.e) bmodv = true;
      });
      if (!done) return badOp("operand");
      K shown = V[0];
      if (!(shown == s0)) viewIncoherent() = true;
      bool ok = true;
      stat(op == "vplus" ? "op_vplus" : "op_vminus"); stat("vbin_SC"); stat("vsize_1");
      Result res = vecResult<K>(got, expect, "");
      res.impl += " stored=" + encList<K>(std::vector<K>{s0}, ok);
      if (res.oracle == "ok" && !(s0 == a.e[0])) res.oracle = "FAIL the scalar behind the view is " + encList<K>(std::vector<K>{s0}, ok) + " after the call, it was " + encList<K>(a.e, ok) + " (operand modified)";
      if (res.oracle == "ok" && bmodv) res.oracle = "FAIL the second operand was modified";
      return res;
    }
    if (!two || b.kind != "SC") return badOp("scalar operands");
    K x = a.e[0], y = b.e[0];
    if (op == "fdot") { got = {Dune::dot(x, y)}; ran = true; }
    else if (op == "fdotT") { got = {Dune::dotT(x, y)}; ran = true; }
  } else if (two) {
    withVec<K>(a, [&](auto& x) {
      using X = std::decay_t<decltype(x)>;
      withVec<K, (isFV<X> ? fvSize<X> : 0)>(b, [&](auto& y) {
        using Y = std::decay_t<decltype(y)>;
        constexpr bool compat = !(isFV<X> && isFV<Y>) || fvSize<X> == fvSize<Y>;
        if constexpr (compat) {
        const auto& cx = x;
        if (op == "vadd") { auto& R = (x += y); got = readVec<K>(R, n); ran = (&R == &x); }
        else if (op == "vsub") { auto& R = (x -= y); got = readVec<K>(R, n); ran = (&R == &x); }
        else if (op == "vaxpy") { auto& R = x.axpy(s, y); got = readVec<K>(R, n); ran = (&R == &x); }
        else if (op == "vplus") { auto R = cx + y; got = readVec<K>(R, n); ran = true; }
        else if (op == "vminus") { auto R = cx - y; got = readVec<K>(R, n); ran = true; }
        else if (op == "veq") { bres = (cx == y); ran = true; }
        else if (op == "vne") { bres = (cx != y); ran = true; }
        else if (op == "vdotT") { got = {cx * y}; ran = true; }
        else if (op == "vdot") { got = {cx.dot(y)}; ran = true; }
        else if (op == "fdot") { got = {Dune::dot(cx, y)}; ran = true; }
        else if (op == "fdotT") { got = {Dune::dotT(cx, y)}; ran = true; }
        else if constexpr (std::is_arithmetic_v<K> && isFV<X> && isFV<Y> && fvSize<X> == 1 && fvSize<Y> == 1) {
          const auto& cy = y;
          if (op == "v1_lt_v1") { bres = (cx < cy); ran = true; }
          else if (op == "v1_le_v1") { bres = (cx <= cy); ran = true; }
          else if (op == "v1_gt_v1") { bres = (cx > cy); ran = true; }
          else if (op == "v1_ge_v1") { bres = (cx >= cy); ran = true; }
        }
        if (readVec<K>(y, n) != b.e) bmod = true;
        bool inpl = op == "vadd" || op == "vsub" || op == "vaxpy";
        if (!inpl && readVec<K>(x, n) != a.e) amod = true;
        }
      });
    });
  } else {
    withVec<K>(a, [&](auto& x) {
      using X = std::decay_t<decltype(x)>;
      const auto& cx = x;
      if (op == "vneg") { auto R = -cx; got = readVec<K>(R, n); ran = true; }
      else if (op == "vadds") { auto& R = (x += s); got = readVec<K>(R, n); ran = (&R == &x); }
      else if (op == "vsubs") { auto& R = (x -= s); got = readVec<K>(R, n); ran = (&R == &x); }
      else if (op == "vscale") { auto& R = (x *= s); got = readVec<K>(R, n); ran = (&R == &x); }
      else if (op == "vdiv") { auto& R = (x /= s); got = readVec<K>(R, n); ran = (&R == &x); }
      else if constexpr (isFV<X>) {
        if constexpr (fvSize<X> > 1) {
          if (op == "vtimes") { auto R = cx * s; got = readVec<K>(R, n); ran = true; }
          else if (op == "vltimes") { auto R = s * cx; got = readVec<K>(R, n); ran = true; }
          else if (op == "vover") { auto R = cx / s; got = readVec<K>(R, n); ran = true; }
        } else {
          // FieldVector<K,1>: mixed operations with plain scalars
          Dune::FieldVector<K, 1> R(K(0));
          bool val = true;
          if (op == "v1_plus_s") R = cx + s;
          else if (op == "s_plus_v1") R = s + cx;
          else if (op == "v1_minus_s") R = cx - s;
          else if (op == "s_minus_v1") R = s - cx;
          else if (op == "v1_times_s" || op == "vtimes") R = cx * s;
          else if (op == "s_times_v1" || op == "vltimes") R = s * cx;
          else if (op == "v1_over_s" || op == "vover") R = cx / s;
          else if (op == "s_over_v1") R = s / cx;
          else if (op == "v1_eq_s") { bres = (cx == s); val = false; }
          else if (op == "s_ne_v1") { bres = (s != cx); val = false; }
          else if (op == "v1_ne_s") { bres = (cx != s); val = false; }
          else if (op == "s_eq_v1") { bres = (s == cx); val = false; }
          else if (op == "v1_conv") { const K& c0 = cx; R[0] = c0; }
          else if (ordvs) {
            if constexpr (std::is_arithmetic_v<K>) {
              val = false;
              if (op == "v1_lt_s") bres = (cx < s);
              else if (op == "v1_le_s") bres = (cx <= s);
              else if (op == "v1_gt_s") bres = (cx > s);
              else if (op == "v1_ge_s") bres = (cx >= s);
              else if (op == "s_lt_v1") bres = (s < cx);
              else if (op == "s_le_v1") bres = (s <= cx);
              else if (op == "s_gt_v1") bres = (s > cx);
              else bres = (s >= cx);
            } else return;
          }
          else return;
          if (val) got = readVec<K>(R, n);
          ran = true;
          const K& conv = cx;   // conversion to the scalar
          if (conv != a.e[0]) amod = true;
        }
      }
      bool inpl = op == "vadds" || op == "vsubs" || op == "vscale" || op == "vdiv";
      if (!inpl && readVec<K>(x, n) != a.e) amod = true;
    });
  }
  if (!ran) return badOp(op + " not available for these vectors");
  stat("op_" + op); stat(op + "_" + a.kind + (two ? "," + b.kind : "")); stat("vsize_" + std::to_string(n));
  std::string note = amod || bmod ? "operand modified" : "";
  if (cmp) {
    bool e;
    if (op == "veq") e = a.e == b.e;
    else if (op == "vne") e = a.e != b.e;
    else if (op == "v1_eq_s" || op == "s_eq_v1") e = a.e[0] == s;
    else if (op == "s_ne_v1" || op == "v1_ne_s") e = a.e[0] != s;
    else {
      // ordering comparisons (int / double only): decided on the integers of the op line
      long l = 0, r = 0;
      if constexpr (std::is_arithmetic_v<K>) {
        long av = (long)a.e[0], ov = ordvv ? (long)b.e[0] : (long)s;
        bool sFirst = op.rfind("s_", 0) == 0;
        l = sFirst ? ov : av; r = sFirst ? av : ov;
      }
      std::string rel = op.substr(op.find('_') + 1, 2);
      e = rel == "lt" ? l < r : rel == "le" ? l <= r : rel == "gt" ? l > r : l >= r;
    }
    return boolResult(bres, e, note);
  }
  if (op == "v1_conv") return vecResult<K>(got, a.e, note);
  if (scalarOut) return vecResult<K>(got, std::vector<K>{(op == "vdot" || op == "fdot") ? dotH : dotT}, note);
  return vecResult<K>(got, expect, note);
}


// ---- FieldMatrix<K,1,1>: mixed operations with plain scalars, conversion to the scalar (fmatrix.hh, class FieldMatrix<K,1,1>) -----
static const std::vector<std::string> M11OPS = {"m11_plus_s", "s_plus_m11", "m11_minus_s", "s_minus_m11", "m11_adds", "m11_subs", "m11_conv"};
template <class K> Result execM11(const std::string& op, const std::vector<std::string>& w) {
  size_t p = 2;
  PM<K> A;
  K s = K(0);
  if (!parseMat<K>(w, p, A)) return badOp("operand");
  if (op != "m11_conv" && !parseScalar<K>(w, p, s)) return badOp("scalar");
  if (p != w.size()) return badOp("trailing tokens");
  if (A.rep != "FM" || A.r != 1 || A.c != 1) return badOp("FieldMatrix<K,1,1> only");
  K a = A.e[0];
  K expect = op == "m11_plus_s" || op == "m11_adds" ? a + s : op == "s_plus_m11" ? s + a
           : op == "m11_minus_s" || op == "m11_subs" ? a - s : op == "s_minus_m11" ? s - a : a;
  Dune::FieldMatrix<K, 1, 1> M;
  M[0][0] = a;
  const auto& cM = M;
  bool amod = false;
  K got = K(0);
  bool scalarOut = false;
  if (op == "m11_plus_s") { auto R = cM + s; got = R[0][0]; }
  else if (op == "s_plus_m11") { auto R = s + cM; got = R[0][0]; }
  else if (op == "m11_minus_s") { auto R = cM - s; got = R[0][0]; }
  else if (op == "s_minus_m11") { auto R = s - cM; got = R[0][0]; }
  else if (op == "m11_adds") { auto& R = (M += s); got = R[0][0]; if (&R != &M) return badOp("+= did not return *this"); }
  else if (op == "m11_subs") { auto& R = (M -= s); got = R[0][0]; if (&R != &M) return badOp("-= did not return *this"); }
  else { const K& conv = cM; got = conv; scalarOut = true; }
  bool inpl = op == "m11_adds" || op == "m11_subs";
  if (!inpl && M[0][0] != a) amod = true;
  stat("op_" + op);
  if (scalarOut) return vecResult<K>(std::vector<K>{got}, std::vector<K>{expect}, amod ? "operand modified" : "");
  Full<K> g(1, 1), e(1, 1);
  g(0, 0) = got; e(0, 0) = expect;
  return matResult<K>(g, e, amod ? "operand modified" : "");
}

// ---- FMatrixHelp / DenseMatrixHelp: multAssign, multAssignTransposed, mult, multTransposed ---------------------------
static const std::vector<std::string> MULTOPS = {"multassign", "multassignT", "fmult", "fmultT"};
template <class K> Result execMultAssign(const std::string& op, const std::vector<std::string>& w) {
  size_t p = 2;
  PM<K> A;
  PV<K> x;
  if (!parseMat<K>(w, p, A) || !parseVec<K>(w, p, x) || p != w.size()) return badOp("operands");
  if (A.tr() || A.t2 || (A.base != "FM" && A.base != "DM")) return badOp("FieldMatrix / DynamicMatrix only");
  bool tr = op == "multassignT" || op == "fmultT";
  if (x.n != (tr ? A.r : A.c)) return badOp("vector size");
  int outN = tr ? A.c : A.r, inN = tr ? A.r : A.c;
  std::vector<K> expect(outN, K(0)), got;
  for (int i = 0; i < outN; ++i) for (int j = 0; j < inN; ++j) expect[i] = expect[i] + (tr ? A.st(j, i) : A.st(i, j)) * x.e[j];
  bool amod = false, xmod = false, ran = false;
  if (A.base == "DM") {
    // DenseMatrixHelp::multAssign is written against DenseMatrix / DenseVector: any pair of representations
    if (op != "multassign" || x.kind != "DV") return badOp("only multAssign with DynamicVector for a DynamicMatrix");
    withStored<K, bDM>(A, false, amod, [&](auto& M) {
      Dune::DynamicVector<K> xv(x.n), ret(outN, K(7));
      fillVec<K>(xv, x.e);
      Dune::DenseMatrixHelp::multAssign(M, std::as_const(xv), ret);
      got = readVec<K>(ret, outN); ran = true;
      if (readVec<K>(xv, x.n) != x.e) xmod = true;
    });
  } else {
    if (x.kind != "FV") return badOp("FieldVector only");
    withStored<K, bFM>(A, false, amod, [&](auto& M) {
      using TM = std::decay_t<decltype(M)>;
      constexpr int XS = TM::cols, YS = TM::rows;
      if (op == "multassign" || op == "fmult") {
        Dune::FieldVector<K, XS> xv; fillVec<K>(xv, x.e);
        if (op == "multassign") { Dune::FieldVector<K, YS> ret(K(7)); Dune::FMatrixHelp::multAssign(M, std::as_const(xv), ret); got = readVec<K>(ret, YS); }
        else { auto ret = Dune::FMatrixHelp::mult(M, std::as_const(xv)); got = readVec<K>(ret, YS); }
        if (readVec<K>(xv, XS) != x.e) xmod = true;
      } else {
        Dune::FieldVector<K, YS> xv; fillVec<K>(xv, x.e);
        if (op == "multassignT") { Dune::FieldVector<K, XS> ret(K(7)); Dune::FMatrixHelp::multAssignTransposed(M, std::as_const(xv), ret); got = readVec<K>(ret, XS); }
        else { auto ret = Dune::FMatrixHelp::multTransposed(M, std::as_const(xv)); got = readVec<K>(ret, XS); }
        if (readVec<K>(xv, YS) != x.e) xmod = true;
      }
      ran = true;
    });
  }
  if (!ran) return badOp(op + " not available");
  stat("op_" + op); stat(op + "_" + A.rep);
  return vecResult<K>(got, expect, amod ? "matrix operand modified" : xmod ? "x modified" : "");
}

// ---- conversions between representations: construction / assignment from another representation ---------------------
// assign <FM|DM> <source matrix>     target (pre-filled with other values, a DynamicMatrix also with another shape) = source
// vassign <FV|DV> <source vector>
template <class K> Result execAssign(const std::string& op, const std::vector<std::string>& w) {
  size_t p = 3;
  if (w.size() < 4) return badOp("operands");
  const std::string tgt = w[2];
  if (op == "vassign") {
    PV<K> x;
    if (!parseVec<K>(w, p, x) || p != w.size() || x.kind == "SC") return badOp("operand");
    if (tgt != "FV" && tgt != "DV") return badOp("target kind");
    std::vector<K> got;
    bool ran = false, xmod = false;
    withVecAny<K>(x, [&](auto& xv) {
      using X = std::decay_t<decltype(xv)>;
      const X& cx = xv;
      if (tgt == "DV") {
        if (x.n % 2) { Dune::DynamicVector<K> t(cx); got = readVec<K>(t, x.n); }               // converting constructor
        else { Dune::DynamicVector<K> t(x.n, K(7)); t = cx; got = readVec<K>(t, x.n); }   // DenseVector::operator=
        ran = true;
      } else {
        auto mk = [&](auto N) {
          constexpr int n = decltype(N)::value;
          if constexpr (!isFV<X> || fvSize<X> == n) {
            if (x.e.size() % 2 == 0) { Dune::FieldVector<K, n> t(cx); got = readVec<K>(t, n); }
            else { Dune::FieldVector<K, n> t(K(7)); t = cx; got = readVec<K>(t, n); }
            ran = true;
          }
        };
        if constexpr (isFV<X>) mk(IC<fvSize<X>>{}); else withInt(x.n, mk);
      }
      if (readVec<K>(xv, x.n) != x.e) xmod = true;
    });
    if (!ran) return badOp("vassign not available");
    stat("op_vassign"); stat("vassign_" + tgt + "<-" + x.kind);
    return vecResult<K>(got, x.e, xmod ? "operand modified" : "");
  }
  PM<K> A;
  if (!parseMat<K>(w, p, A) || p != w.size()) return badOp("operand");
  if (A.tr() || A.t2) return badOp("plain representations only");
  if (tgt != "FM" && tgt != "DM") return badOp("target representation");
  bool amod = false, ran = false;
  Full<K> got;
  if (tgt == "DM") {
    withStored<K, bFM | bDM | bDG | bSV>(A, false, amod, [&](auto& M) {
      if (A.e.size() % 2) { Dune::DynamicMatrix<K> T(M); got = readMat<K>(T); }
      else { Dune::DynamicMatrix<K> T(A.c + 1, A.r + 2, K(7)); T = M; got = readMat<K>(T); }
      ran = true;
    });
  } else {
    withStored<K, bFM | bDM | bDG | bSV>(A, false, amod, [&](auto& M) {
      using TM = std::decay_t<decltype(M)>;
      auto mk = [&](auto R, auto C) {
        constexpr int r = decltype(R)::value, c = decltype(C)::value;
        if constexpr (fmShape<K>(r, c)) {
          if (A.e.size() % 2) { Dune::FieldMatrix<K, r, c> T(M); got = readMat<K>(T); }
          else { Dune::FieldMatrix<K, r, c> T(K(7)); T = M; got = readMat<K>(T); }
          ran = true;
        }
      };
      if constexpr (isStatic<TM>) mk(IC<TM::rows>{}, IC<TM::cols>{});
      else if (A.r == A.c) withInt(A.r, [&](auto N) { mk(N, N); });   // FieldMatrix = DynamicMatrix: square shapes only (compile time)
    });
  }
  if (!ran) return badOp("assign not available for this pair");
  stat("op_assign"); stat("assign_" + tgt + "<-" + A.rep);
  return matResult<K>(got, logical(A), amod ? "operand modified" : "");
}

// ---- object histories ("seq") ----------------------------------------------------------------------------------------
// Several objects, a sequence of operations on them, and after EVERY operation the storage behind EVERY object (for a
// scalar view: the scalar variable it was created from, read directly, not through the view).  This is where handle types
// (ScalarVectorView, ScalarMatrixView, TransposedMatrixWrapper) differ from owning ones: their state is more than entries.
//
// line:   <K> seq <decl> <decl> ... : <op>;<op>;...
// decl  = FV n list | DV n list | SC 1 list | SCC 1 list                (SC = scalar variable s + Impl::asVector(s); SCC = view of the const scalar)
//       | FM r c list | DM r c list | DG n n list | SV 1 1 list | SVC 1 1 list   (SV = scalar variable s + Impl::asMatrix(s))
//       | TV i | TW i                                                  (a transposed view of matrix object i, created before the first op:
//                                                                        TV = transposedView(A), TW = transpose(r) with a const lvalue std::reference_wrapper r = std::cref(A))
// op    = asg t s | fill t k | add t s | sub t s | axpy t k s | scale t k | lmul t s | rmul t s | <kernel> a alpha x y
//         | rasg t i s j | raxpy t i k s j
//         (object t = object s; t = k; t += s; t -= s; t.axpy(k,s); t *= k; t.leftmultiply(s); t.rightmultiply(s); a.kernel([alpha,] x, y);
//          rows of matrix objects as vectors: t[i] = s[j]; t[i].axpy(k, s[j]))
// answer: per op the storage of every object "[..]|[..]|-" (a TV has none: "-"), ops joined by ';'
namespace sq {

// vector tags: 0 DV, 1..3 FV<n>, 4 SC, 5 SCC       matrix tags: 0 FM11, 1 FM22, 2 DM, 3 DG2, 4 SV, 5 SVC
constexpr int vDV = 0, vSC = 4, vSCC = 5;
constexpr int mFM11 = 0, mFM22 = 1, mDM = 2, mDG2 = 3, mSV = 4, mSVC = 5;
enum OpK { oAsg, oFill, oAdd, oSub, oAxpy, oScale, oLmul, oRmul, oRasg, oRaxpy };
// the kind of vector a row of a matrix object is (FieldMatrix<K,n,n>: FieldVector<K,n>; DynamicMatrix: DynamicVector; a scalar
// matrix view: the scalar vector view it holds), as a vector tag
constexpr int rowTag(int m) { return m == mFM11 ? 1 : m == mFM22 ? 2 : m == mDM ? vDV : m == mSV ? vSC : m == mSVC ? vSCC : -1; }

// which pairs (target, source) of vector objects an operation is executed for (sizes must agree as well)
constexpr bool vecPairOk(int op, int t, int s) {
  if (t == vSCC) return false;
  if (t >= 1 && t <= 3) return s == t || s == vDV || (t == 1 && (s == vSC || s == vSCC));
  if (t == vDV) return true;
  // t == SC: assignment from a DynamicVector does not exist (no conversion to the scalar)
  if (s == 2 || s == 3) return false;
  return !(op == oAsg && s == vDV);
}
constexpr bool matPairOk(int op, int t, int s) {
  const bool one = (s == mFM11 || s == mDM || s == mSV || s == mSVC);
  switch (t) {
    case mFM11: return (op == oAdd || op == oSub) ? s == mFM11 : one;   // FieldMatrix<K,1,1> hides the generic += / -=
    case mFM22: return s == mFM22 || s == mDM || (op == oAsg && s == mDG2);
    case mDM: return s != mDG2 || op == oAsg;
    case mDG2: return s == mDG2 && (op == oAsg || op == oAdd || op == oSub);
    case mSV: return op == oAsg ? (s == mFM11 || s == mSV || s == mSVC) : one;
  }
  return false;
}
// which (matrix, x, y) triples the kernels are executed for; tv: the matrix is a transposed view of an object with tag `a`
constexpr bool kernTripleOk(int a, bool tv, int x, int y) {
  auto p = [&](int xx, int yy) { return x == xx && y == yy; };
  if (tv) {
    switch (a) {
      case mFM22: case mDG2: return p(2, 2);
      case mDM: return p(vDV, vDV);
      case mSV: return p(vSC, vSC) || p(1, 1);
    }
    return false;
  }
  switch (a) {
    case mFM11: return p(1, 1) || p(vSC, vSC) || p(vSCC, vSC) || p(vDV, vDV);
    case mSV: case mSVC: return p(1, 1) || p(vSC, vSC) || p(vSCC, vSC) || p(vSC, 1);
    case mDM: return p(vDV, vDV) || p(vSCC, vSC) || p(vDV, vSC);
    case mFM22: return p(2, 2);
    case mDG2: return p(2, 2) || p(vDV, vDV);
  }
  return false;
}

template <class K> struct Reg {
  std::string kind;
  bool isVec = false, isTV = false;
  int tag = 0, r = 1, c = 1, wraps = -1;   // r x c: shape of the stored object (vectors 1 x n)
  virtual ~Reg() = default;
  virtual std::vector<K> store() const = 0;   // the storage the object stands for, raw layout (DG: the diagonal)
  virtual std::vector<K> via() const = 0;     // the same entries read through the object
};
template <class K, class M> std::vector<K> rawMat(const M& A) {
  std::vector<K> o;
  if constexpr (IsDiag<M>::value) { for (size_t i = 0; i < A.N(); ++i) o.push_back(A.diagonal(i)); }
  else { for (size_t i = 0; i < A.N(); ++i) for (size_t j = 0; j < A.M(); ++j) o.push_back(A[i][j]); }
  return o;
}
template <class K, class V> struct VecOwn : Reg<K> {
  V o;
  template <class... A> VecOwn(A&&... a) : o(std::forward<A>(a)...) {}
  std::vector<K> store() const override { return readVec<K>(o, 0); }
  std::vector<K> via() const override { return readVec<K>(o, 0); }
};
template <class K, class KK> struct VecView : Reg<K> {   // KK = K or const K
  K s;
  Dune::Impl::ScalarVectorView<KK> o;
  explicit VecView(K v) : s(v), o(Dune::Impl::asVector(static_cast<KK&>(s))) {}
  VecView(const VecView&) = delete;
  std::vector<K> store() const override { return {s}; }
  std::vector<K> via() const override { return {o[0]}; }
};
template <class K, class M> struct MatOwn : Reg<K> {
  M o;
  template <class... A> MatOwn(A&&... a) : o(std::forward<A>(a)...) {}
  std::vector<K> store() const override { return rawMat<K>(o); }
  std::vector<K> via() const override { return rawMat<K>(o); }
};
template <class K, class KK> struct MatView : Reg<K> {
  K s;
  Dune::Impl::ScalarMatrixView<KK> o;
  explicit MatView(K v) : s(v), o(Dune::Impl::asMatrix(static_cast<KK&>(s))) {}
  MatView(const MatView&) = delete;
  std::vector<K> store() const override { return {s}; }
  std::vector<K> via() const override { return {o[0][0]}; }
};
// the two ways of making a view that refers to a matrix (they need not have the same type)
template <class M> auto makeView(const M& m, IC<0>) { return Dune::transposedView(m); }
// (only a CONST lvalue reference_wrapper selects transpose(const std::reference_wrapper<Matrix>&); a prvalue or a non-const
// lvalue selects the generic transpose(Matrix&&), as transposedView does)
template <class M> auto makeView(const M& m, IC<1>) { const auto r = std::cref(m); return Dune::transpose(r); }
template <class K, class M, int SP> struct TVReg : Reg<K> {
  using V = decltype(makeView(std::declval<const M&>(), IC<SP>{}));
  V o;
  explicit TVReg(const M& m) : o(makeView(m, IC<SP>{})) {}
  std::vector<K> store() const override { return {}; }
  std::vector<K> via() const override { auto D = o.asDense(); return rawMat<K>(D); }   // row-major, shape c x r of the wrapped object
};

template <class T> struct IsDynVec : std::false_type {};
template <class K> struct IsDynVec<Dune::DynamicVector<K>> : std::true_type {};
template <class T> struct IsSVV : std::false_type {};
template <class K> struct IsSVV<Dune::Impl::ScalarVectorView<K>> : std::true_type {};
template <class K> struct IsSVV<Dune::Impl::ScalarVectorView<const K>> : std::true_type {};
template <class V> constexpr int vecTag() {
  if constexpr (isFV<V>) return fvSize<V>;
  else if constexpr (IsDynVec<V>::value) return vDV;
  else if constexpr (std::is_same_v<V, Dune::Impl::ScalarVectorView<const typename Dune::FieldTraits<V>::field_type>>) return vSCC;
  else return vSC;
}
template <class M> constexpr int matTag() {
  if constexpr (Dune::Impl::IsFieldMatrix_v<M>) return M::rows == 1 ? mFM11 : mFM22;
  else if constexpr (IsDiag<M>::value) return mDG2;
  else if constexpr (IsSV<M>::value) return std::is_same_v<M, Dune::Impl::ScalarMatrixView<const typename Dune::FieldTraits<M>::field_type>> ? mSVC : mSV;
  else return mDM;
}

template <class K, class F> bool visitVec(Reg<K>& g, F&& f) {
  if (auto* p = dynamic_cast<VecOwn<K, Dune::DynamicVector<K>>*>(&g)) { f(p->o); return true; }
  if (auto* p = dynamic_cast<VecOwn<K, Dune::FieldVector<K, 1>>*>(&g)) { f(p->o); return true; }
  if (auto* p = dynamic_cast<VecOwn<K, Dune::FieldVector<K, 2>>*>(&g)) { f(p->o); return true; }
  if (auto* p = dynamic_cast<VecOwn<K, Dune::FieldVector<K, 3>>*>(&g)) { f(p->o); return true; }
  if (auto* p = dynamic_cast<VecView<K, K>*>(&g)) { f(p->o); return true; }
  if (auto* p = dynamic_cast<VecView<K, const K>*>(&g)) { f(p->o); return true; }
  return false;
}
template <class K, class F> bool visitMat(Reg<K>& g, F&& f) {   // owning matrices and scalar views
  if (auto* p = dynamic_cast<MatOwn<K, Dune::DynamicMatrix<K>>*>(&g)) { f(p->o); return true; }
  if (auto* p = dynamic_cast<MatOwn<K, Dune::FieldMatrix<K, 1, 1>>*>(&g)) { f(p->o); return true; }
  if (auto* p = dynamic_cast<MatOwn<K, Dune::FieldMatrix<K, 2, 2>>*>(&g)) { f(p->o); return true; }
  if (auto* p = dynamic_cast<MatOwn<K, Dune::DiagonalMatrix<K, 2>>*>(&g)) { f(p->o); return true; }
  if (auto* p = dynamic_cast<MatView<K, K>*>(&g)) { f(p->o); return true; }
  if (auto* p = dynamic_cast<MatView<K, const K>*>(&g)) { f(p->o); return true; }
  return false;
}
template <class K, int SP, class F> bool visitTVs(Reg<K>& g, F&& f) {
  if (auto* p = dynamic_cast<TVReg<K, Dune::DynamicMatrix<K>, SP>*>(&g)) { f(p->o); return true; }
  if (auto* p = dynamic_cast<TVReg<K, Dune::FieldMatrix<K, 2, 2>, SP>*>(&g)) { f(p->o); return true; }
  if (auto* p = dynamic_cast<TVReg<K, Dune::DiagonalMatrix<K, 2>, SP>*>(&g)) { f(p->o); return true; }
  if (auto* p = dynamic_cast<TVReg<K, Dune::Impl::ScalarMatrixView<K>, SP>*>(&g)) { f(p->o); return true; }
  return false;
}
template <class K, class F> bool visitTV(Reg<K>& g, F&& f) { return visitTVs<K, 0>(g, f) || visitTVs<K, 1>(g, f); }

// declared objects of one case (plain description; the generator works on these as well)
struct Decl { std::string kind; bool isVec = false, isTV = false; int tag = 0, r = 1, c = 1, wraps = -1; };
inline bool declShape(Decl& d) {   // fills tag / isVec from kind + shape; false when the combination is not instantiated
  const std::string& k = d.kind;
  if (k == "FV") { d.isVec = true; d.tag = d.c; return d.r == 1 && d.c >= 1 && d.c <= 3; }
  if (k == "DV") { d.isVec = true; d.tag = vDV; return d.r == 1 && d.c >= 1 && d.c <= 4; }
  if (k == "SC") { d.isVec = true; d.tag = vSC; return d.r == 1 && d.c == 1; }
  if (k == "SCC") { d.isVec = true; d.tag = vSCC; return d.r == 1 && d.c == 1; }
  if (k == "FM") { d.tag = d.r == 1 ? mFM11 : mFM22; return (d.r == 1 && d.c == 1) || (d.r == 2 && d.c == 2); }
  if (k == "DM") { d.tag = mDM; return d.r >= 1 && d.r <= 3 && d.c >= 1 && d.c <= 3; }
  if (k == "DG") { d.tag = mDG2; return d.r == 2 && d.c == 2; }
  if (k == "SV") { d.tag = mSV; return d.r == 1 && d.c == 1; }
  if (k == "SVC") { d.tag = mSVC; return d.r == 1 && d.c == 1; }
  return false;
}
struct Op { std::string name; int kind = -1; const KDef* kd = nullptr; int t = -1, s = -1, a = -1, x = -1, y = -1, i = -1, j = -1; };
// is the operation executed for these objects?  (shared by generator and executor; the Lean driver has the same table)
inline bool opOk(const std::vector<Decl>& d, const Op& o) {
  auto in = [&](int i) { return i >= 0 && i < (int)d.size(); };
  if (o.kd) {
    if (!in(o.a) || !in(o.x) || !in(o.y) || o.x == o.y) return false;
    const Decl& A = d[o.a];
    if (A.isVec || !d[o.x].isVec || !d[o.y].isVec) return false;
    const Decl& B = A.isTV ? d[A.wraps] : A;
    if (A.isTV && std::string(o.kd->name) != "mv" && std::string(o.kd->name) != "mtv") return false;
    if (!kernTripleOk(B.tag, A.isTV, d[o.x].tag, d[o.y].tag)) return false;
    int R = A.isTV ? B.c : B.r, C = A.isTV ? B.r : B.c;   // logical shape of the matrix operand
    bool tr = o.kd->tr != 'N';
    return d[o.x].c == (tr ? R : C) && d[o.y].c == (tr ? C : R);
  }
  if (!in(o.t) || d[o.t].isTV) return false;
  const Decl& T = d[o.t];
  if (o.kind == oFill || o.kind == oScale) return T.isVec ? T.tag != vSCC : T.tag != mSVC;
  if (!in(o.s) || d[o.s].isTV) return false;
  const Decl& S = d[o.s];
  // o.s == o.t: the object is its own argument (`A += A`, `A = A`, `A.axpy(k, A)`, `A.leftmultiply(A)`, `A.rightmultiply(A)`);
  // the definition is evaluated on the entries the object holds when the call is made
  if (o.kind == oRasg || o.kind == oRaxpy) {
    if (o.s == o.t) return false;
    if (T.isVec || S.isVec || T.tag == mDG2 || S.tag == mDG2) return false;
    if (o.i < 0 || o.i >= T.r || o.j < 0 || o.j >= S.r || T.c != S.c) return false;
    return vecPairOk(o.kind == oRasg ? oAsg : oAxpy, rowTag(T.tag), rowTag(S.tag));
  }
  if (T.isVec != S.isVec || T.r != S.r || T.c != S.c) return false;
  if (T.isVec) return o.kind != oLmul && o.kind != oRmul && vecPairOk(o.kind, T.tag, S.tag);
  if ((o.kind == oLmul || o.kind == oRmul) && (T.r != T.c || T.tag == mDG2 || S.tag == mDG2)) return false;
  if (o.kind == oAxpy && T.tag == mDG2) return false;
  return matPairOk(o.kind, T.tag, S.tag);
}

template <class K> Full<K> expand(const Decl& d, const std::vector<K>& raw) {   // logical full matrix of a stored object
  Full<K> f(d.r, d.c);
  if (d.kind == "DG") { for (int i = 0; i < d.r; ++i) f(i, i) = raw[i]; }
  else f.a = raw;
  return f;
}
template <class K> std::vector<K> contract(const Decl& d, const Full<K>& f) {
  if (d.kind != "DG") return f.a;
  std::vector<K> o;
  for (int i = 0; i < d.r; ++i) o.push_back(f(i, i));
  return o;
}

template <class K> Result exec(const std::vector<std::string>& w, const std::string& line) {
  // ---- declarations
  std::vector<Decl> decl;
  std::vector<std::vector<K>> init;
  size_t p = 2;
  for (; p < w.size() && w[p] != ":";) {
    Decl d;
    d.kind = w[p];
    if (d.kind == "TV" || d.kind == "TW") {
      if (p + 2 > w.size()) return badOp("seq declaration");
      try { d.wraps = std::stoi(w[p + 1]); } catch (...) { return badOp("seq declaration"); }
      if (d.wraps < 0 || d.wraps >= (int)decl.size()) return badOp("TV of an undeclared object");
      const Decl& B = decl[d.wraps];
      if (B.isVec || B.isTV || !(B.tag == mFM22 || B.tag == mDM || B.tag == mDG2 || B.tag == mSV)) return badOp("TV of this object");
      d.isTV = true; d.r = B.r; d.c = B.c;
      init.push_back({});
      p += 2;
    } else {
      bool vec = d.kind == "FV" || d.kind == "DV" || d.kind == "SC" || d.kind == "SCC";
      size_t need = vec ? 3 : 4;
      if (p + need > w.size()) return badOp("seq declaration");
      try {
        if (vec) { d.r = 1; d.c = std::stoi(w[p + 1]); } else { d.r = std::stoi(w[p + 1]); d.c = std::stoi(w[p + 2]); }
      } catch (...) { return badOp("seq declaration"); }
      if (!declShape(d)) return badOp("seq object kind / shape");
      std::vector<K> e;
      if (!decList<K>(w[p + need - 1], e) || (int)e.size() != (d.kind == "DG" ? d.r : d.r * d.c)) return badOp("seq entries");
      init.push_back(e);
      p += need;
    }
    decl.push_back(d);
  }
  if (p >= w.size() || decl.empty() || decl.size() > 8) return badOp("seq: no operations");
  // ---- the real objects
  std::vector<std::unique_ptr<Reg<K>>> reg;
  for (size_t i = 0; i < decl.size(); ++i) {
    const Decl& d = decl[i];
    const std::vector<K>& e = init[i];
    std::unique_ptr<Reg<K>> g;
    if (d.kind == "FV") {
      withInt(d.c, [&](auto N) { constexpr int n = decltype(N)::value; if constexpr (n <= 3) { auto* q = new VecOwn<K, Dune::FieldVector<K, n>>(); fillVec<K>(q->o, e); g.reset(q); } });
    } else if (d.kind == "DV") { auto* q = new VecOwn<K, Dune::DynamicVector<K>>(d.c); fillVec<K>(q->o, e); g.reset(q); }
    else if (d.kind == "SC") g.reset(new VecView<K, K>(e[0]));
    else if (d.kind == "SCC") g.reset(new VecView<K, const K>(e[0]));
    else if (d.kind == "FM") {
      PM<K> m; m.base = "FM"; m.r = d.r; m.c = d.c; m.e = e;
      if (d.r == 1) { auto* q = new MatOwn<K, Dune::FieldMatrix<K, 1, 1>>(); fillMat<K>(q->o, m); g.reset(q); }
      else { auto* q = new MatOwn<K, Dune::FieldMatrix<K, 2, 2>>(); fillMat<K>(q->o, m); g.reset(q); }
    } else if (d.kind == "DM") { PM<K> m; m.base = "DM"; m.r = d.r; m.c = d.c; m.e = e; auto* q = new MatOwn<K, Dune::DynamicMatrix<K>>(d.r, d.c, K(0)); fillMat<K>(q->o, m); g.reset(q); }
    else if (d.kind == "DG") { PM<K> m; m.base = "DG"; m.r = d.r; m.c = d.c; m.e = e; auto* q = new MatOwn<K, Dune::DiagonalMatrix<K, 2>>(); fillMat<K>(q->o, m); g.reset(q); }
    else if (d.kind == "SV") g.reset(new MatView<K, K>(e[0]));
    else if (d.kind == "SVC") g.reset(new MatView<K, const K>(e[0]));
    else if (d.isTV) {
      Reg<K>& B = *reg[d.wraps];
      auto mk = [&](auto SP) {
        constexpr int sp = decltype(SP)::value;
        if (auto* b = dynamic_cast<MatOwn<K, Dune::DynamicMatrix<K>>*>(&B)) g.reset(new TVReg<K, Dune::DynamicMatrix<K>, sp>(b->o));
        else if (auto* b = dynamic_cast<MatOwn<K, Dune::FieldMatrix<K, 2, 2>>*>(&B)) g.reset(new TVReg<K, Dune::FieldMatrix<K, 2, 2>, sp>(b->o));
        else if (auto* b = dynamic_cast<MatOwn<K, Dune::DiagonalMatrix<K, 2>>*>(&B)) g.reset(new TVReg<K, Dune::DiagonalMatrix<K, 2>, sp>(b->o));
        else if (auto* b = dynamic_cast<MatView<K, K>*>(&B)) g.reset(new TVReg<K, Dune::Impl::ScalarMatrixView<K>, sp>(b->o));
      };
      if (d.kind == "TV") mk(IC<0>{}); else mk(IC<1>{});
    }
    if (!g) return badOp("seq object not instantiated");
    g->kind = d.kind; g->isVec = d.isVec; g->isTV = d.isTV; g->tag = d.tag; g->r = d.r; g->c = d.c; g->wraps = d.wraps;
    reg.push_back(std::move(g));
  }
  // ---- the shadow: logical full matrices on plain vectors
  std::vector<Full<K>> sh(decl.size());
  for (size_t i = 0; i < decl.size(); ++i) if (!decl[i].isTV) sh[i] = expand<K>(decl[i], init[i]);
  auto logicalOf = [&](int i) {
    if (!decl[i].isTV) return sh[i];
    const Full<K>& b = sh[decl[i].wraps];
    Full<K> t(b.c, b.r);
    for (int a = 0; a < b.r; ++a) for (int c = 0; c < b.c; ++c) t(c, a) = b(a, c);
    return t;
  };
  // ---- the operations
  std::string rest = line.substr(line.find(" : ") == std::string::npos ? line.size() : line.find(" : ") + 3);
  std::vector<std::string> segs = split(rest, ';');
  if (segs.empty() || segs.size() > 40) return badOp("seq operations");
  Result res;
  std::string fail;
  std::ostringstream impl;
  stat("op_seq"); stat("seq_objects_" + std::to_string(decl.size())); stat("seq_len_" + std::to_string(segs.size()));
  for (size_t si = 0; si < segs.size(); ++si) {
    auto t = words(segs[si]);
    if (t.empty()) return badOp("empty seq operation");
    Op o; o.name = t[0];
    K k = K(0);
    auto idx = [&](const std::string& s, int& v) { try { size_t q = 0; v = std::stoi(s, &q); return q == s.size(); } catch (...) { return false; } };
    auto scal = [&](const std::string& s) { std::vector<K> l; if (!decList<K>(s, l) || l.size() != 1) return false; k = l[0]; return true; };
    bool okp = false;
    if (o.name == "asg" || o.name == "add" || o.name == "sub" || o.name == "lmul" || o.name == "rmul") {
      o.kind = o.name == "asg" ? oAsg : o.name == "add" ? oAdd : o.name == "sub" ? oSub : o.name == "lmul" ? oLmul : oRmul;
      okp = t.size() == 3 && idx(t[1], o.t) && idx(t[2], o.s);
    } else if (o.name == "fill" || o.name == "scale") {
      o.kind = o.name == "fill" ? oFill : oScale;
      okp = t.size() == 3 && idx(t[1], o.t) && scal(t[2]);
    } else if (o.name == "axpy") { o.kind = oAxpy; okp = t.size() == 4 && idx(t[1], o.t) && scal(t[2]) && idx(t[3], o.s); }
    else if (o.name == "rasg") { o.kind = oRasg; okp = t.size() == 5 && idx(t[1], o.t) && idx(t[2], o.i) && idx(t[3], o.s) && idx(t[4], o.j); }
    else if (o.name == "raxpy") { o.kind = oRaxpy; okp = t.size() == 6 && idx(t[1], o.t) && idx(t[2], o.i) && scal(t[3]) && idx(t[4], o.s) && idx(t[5], o.j); }
    else if ((o.kd = kdef(o.name))) okp = t.size() == 5 && idx(t[1], o.a) && scal(t[2]) && idx(t[3], o.x) && idx(t[4], o.y);
    if (!okp) return badOp("seq operation '" + segs[si] + "'");
    if (!opOk(decl, o)) return badOp("seq operation '" + segs[si] + "' is not executed for these objects");
    stat("seqop_" + o.name);
    // -- expectation (the definition, on the shadow)
    int target = o.kd ? o.y : o.t;
    if (o.kd) {
      Full<K> A = logicalOf(o.a);
      const Full<K>& X = sh[o.x];
      Full<K>& Y = sh[o.y];
      int outN = o.kd->tr == 'N' ? A.r : A.c, inN = o.kd->tr == 'N' ? A.c : A.r;
      for (int i = 0; i < outN; ++i) {
        K s = K(0);
        for (int j = 0; j < inN; ++j) {
          K a = o.kd->tr == 'N' ? A(i, j) : A(j, i);
          if (o.kd->tr == 'H') a = Cd<K>::conj(a);
          s = s + a * X.a[j];
        }
        if (o.kd->alpha) s = k * s;
        Y.a[i] = o.kd->mode == '=' ? s : o.kd->mode == '+' ? Y.a[i] + s : Y.a[i] - s;
      }
      stat("seqkern_" + decl[o.a].kind + (decl[o.a].isTV ? decl[decl[o.a].wraps].kind : "") + "," + decl[o.x].kind + "," + decl[o.y].kind);
    } else {
      Full<K>& T = sh[o.t];
      const bool diag = decl[o.t].kind == "DG";
      if (o.kind == oFill) { for (int i = 0; i < T.r; ++i) for (int j = 0; j < T.c; ++j) T(i, j) = (!diag || i == j) ? k : K(0); }
      else if (o.kind == oScale) { for (auto& v : T.a) v = v * k; }
      else {
        const Full<K> S = sh[o.s];
        if (o.kind == oAsg) T.a = S.a;
        else if (o.kind == oAdd) { for (size_t i = 0; i < T.a.size(); ++i) T.a[i] = T.a[i] + S.a[i]; }
        else if (o.kind == oSub) { for (size_t i = 0; i < T.a.size(); ++i) T.a[i] = T.a[i] - S.a[i]; }
        else if (o.kind == oAxpy) { for (size_t i = 0; i < T.a.size(); ++i) T.a[i] = T.a[i] + k * S.a[i]; }
        else if (o.kind == oRasg) { for (int c = 0; c < T.c; ++c) T(o.i, c) = S(o.j, c); }
        else if (o.kind == oRaxpy) { for (int c = 0; c < T.c; ++c) T(o.i, c) = T(o.i, c) + k * S(o.j, c); }
        else if (o.kind == oLmul) T = mulOracle<K>(S, Full<K>(T));
        else if (o.kind == oRmul) T = mulOracle<K>(Full<K>(T), S);
        stat("seq" + o.name + "_" + decl[o.t].kind + "," + decl[o.s].kind);
        if (o.s == o.t) stat("seqself_" + o.name);
      }
    }
    // -- the real call
    bool ran = false;
    if (o.kd) {
      const std::string n = o.kd->name;
      auto onMat = [&](auto& A, auto TVflag, auto BaseTag) {
        constexpr bool tv = decltype(TVflag)::value;
        constexpr int at = decltype(BaseTag)::value;
        visitVec<K>(*reg[o.x], [&](auto& X) {
          using XT = std::decay_t<decltype(X)>;
          visitVec<K>(*reg[o.y], [&](auto& Y) {
            using YT = std::decay_t<decltype(Y)>;
            if constexpr (kernTripleOk(at, tv, vecTag<XT>(), vecTag<YT>())) {
              ran = o.kd->tr != 'N' ? callKernel<true>(std::as_const(A), n, k, std::as_const(X), Y)
                                    : callKernel<false>(std::as_const(A), n, k, std::as_const(X), Y);
            }
          });
        });
      };
      if (decl[o.a].isTV)
        visitTV<K>(*reg[o.a], [&](auto& A) {
          using WM = std::remove_cv_t<typename std::decay_t<decltype(A)>::WrappedMatrix>;
          onMat(A, std::true_type{}, IC<matTag<WM>()>{});
        });
      else
        visitMat<K>(*reg[o.a], [&](auto& A) { onMat(A, std::false_type{}, IC<matTag<std::decay_t<decltype(A)>>()>{}); });
    } else if (o.kind == oFill || o.kind == oScale) {
      auto un = [&](auto& T, auto writable) {
        if constexpr (decltype(writable)::value) {
          if (o.kind == oFill) { T = k; ran = true; } else { auto& R = (T *= k); ran = ((const void*)&R == (const void*)&T); }
        }
      };
      if (decl[o.t].isVec) visitVec<K>(*reg[o.t], [&](auto& T) { un(T, std::bool_constant<vecTag<std::decay_t<decltype(T)>>() != vSCC>{}); });
      else visitMat<K>(*reg[o.t], [&](auto& T) { un(T, std::bool_constant<matTag<std::decay_t<decltype(T)>>() != mSVC>{}); });
    } else if (decl[o.t].isVec) {
      visitVec<K>(*reg[o.t], [&](auto& T) {
        using TT = std::decay_t<decltype(T)>;
        visitVec<K>(*reg[o.s], [&](auto& S0) {
          const auto& S = S0;
          using ST = std::decay_t<decltype(S0)>;
          if constexpr (vecPairOk(oAdd, vecTag<TT>(), vecTag<ST>())) {
            if (o.kind == oAdd) { auto& R = (T += S); ran = (&R == &T); }
            else if (o.kind == oSub) { auto& R = (T -= S); ran = (&R == &T); }
            else if (o.kind == oAxpy) { auto& R = T.axpy(k, S); ran = (&R == &T); }
          }
          if constexpr (vecPairOk(oAsg, vecTag<TT>(), vecTag<ST>())) {
            if (o.kind == oAsg) { auto& R = (T = S); ran = (&R == &T); }
          }
        });
      });
    } else {
      visitMat<K>(*reg[o.t], [&](auto& T) {
        using TT = std::decay_t<decltype(T)>;
        visitMat<K>(*reg[o.s], [&](auto& S0) {
          const auto& S = S0;
          using ST = std::decay_t<decltype(S0)>;
          constexpr int tt = matTag<TT>(), st = matTag<ST>();
          if constexpr (matPairOk(oAsg, tt, st)) { if (o.kind == oAsg) { auto& R = (T = S); ran = (&R == &T); } }
          if constexpr (matPairOk(oAdd, tt, st)) {
            if (o.kind == oAdd) { auto& R = (T += S); ran = (&R == &T); }
            else if (o.kind == oSub) { auto& R = (T -= S); ran = (&R == &T); }
          }
          if constexpr (matPairOk(oAxpy, tt, st)) { if (o.kind == oAxpy) { auto& R = T.axpy(k, S); ran = (&R == &T); } }
          if constexpr (matPairOk(oLmul, tt, st) && tt != mDG2) {
            if (o.kind == oLmul) { auto& R = T.leftmultiply(S); ran = (&R == &T); }
            else if (o.kind == oRmul) { auto& R = T.rightmultiply(S); ran = (&R == &T); }
          }
          if constexpr (tt != mDG2 && st != mDG2 && tt != mSVC) {
            if constexpr (vecPairOk(oAsg, rowTag(tt), rowTag(st))) {
              if (o.kind == oRasg) { auto&& row = T[o.i]; auto& R = (row = S[o.j]); ran = ((const void*)&R == (const void*)&row); }
            }
            if constexpr (vecPairOk(oAxpy, rowTag(tt), rowTag(st))) {
              if (o.kind == oRaxpy) { auto&& row = T[o.i]; auto& R = row.axpy(k, S[o.j]); ran = ((const void*)&R == (const void*)&row); }
            }
          }
        });
      });
    }
    if (!ran) return badOp("seq operation '" + segs[si] + "' could not be executed");
    // -- observe every object
    if (si) impl << ";";
    for (size_t i = 0; i < decl.size(); ++i) {
      if (i) impl << "|";
      bool ok = true;
      if (decl[i].isTV) {
        impl << "-";
        Full<K> e = logicalOf((int)i);
        if (fail.empty() && reg[i]->via() != e.a)
          fail = "after op " + std::to_string(si) + " (" + segs[si] + "): the transposed view object " + std::to_string(i) + " shows " +
                 encList<K>(reg[i]->via(), ok) + " but its matrix transposed is " + encList<K>(e.a, ok);
        continue;
      }
      std::vector<K> st = reg[i]->store(), vi = reg[i]->via(), ex = contract<K>(decl[i], sh[i]);
      std::string s = encList<K>(st, ok);
      impl << s;
      if (!fail.empty()) continue;
      const std::string what = "after op " + std::to_string(si) + " (" + segs[si] + "): ";
      const std::string role = (int)i == target ? "" : " (not written by this operation)";
      if (!ok) fail = what + "storage of object " + std::to_string(i) + " holds a non-integer / out-of-range value " + s;
      else if (st != ex) fail = what + "storage of object " + std::to_string(i) + " (" + decl[i].kind + ") is " + s + " but the definition gives " + encList<K>(ex, ok) + role;
      else if (vi != ex) fail = what + "object " + std::to_string(i) + " (" + decl[i].kind + ") shows " + encList<K>(vi, ok) + " but its storage and the definition give " + s + role;
    }
  }
  res.impl = impl.str();
  if (!fail.empty()) res.oracle = "FAIL " + fail;
  return res;
}

}  // namespace sq

// ---- dispatch --------------------------------------------------------------------------------------------------------
static const std::vector<std::string> MATVS = {"madd", "msub", "mplus", "mminus", "mscale", "mdiv", "mtimes", "mltimes",
                                               "mover", "maxpy", "mneg", "meq", "mne"};
static const std::vector<std::string> VECOPS = {
    "vadd", "vsub", "vplus", "vminus", "vneg", "vadds", "vsubs", "vscale", "vdiv", "vtimes", "vltimes", "vover", "vaxpy",
    "veq", "vne", "vdotT", "vdot", "fdot", "fdotT", "v1_plus_s", "s_plus_v1", "v1_minus_s", "s_minus_v1", "v1_times_s",
    "s_times_v1", "v1_over_s", "s_over_v1", "v1_eq_s", "s_ne_v1", "v1_ne_s", "s_eq_v1", "v1_conv",
    "v1_lt_s", "v1_le_s", "v1_gt_s", "v1_ge_s", "s_lt_v1", "s_le_v1", "s_gt_v1", "s_ge_v1",
    "v1_lt_v1", "v1_le_v1", "v1_gt_v1", "v1_ge_v1"};
static bool has(const std::vector<std::string>& v, const std::string& s) { return std::find(v.begin(), v.end(), s) != v.end(); }

#ifndef C01_CATS
#define C01_CATS 255
#endif
template <class K> Result execK(const std::vector<std::string>& w, const std::string& line) {
  const std::string& op = w[1];
#if C01_CATS & 128
  if (op == "seq") return sq::exec<K>(w, line);
#endif
#if C01_CATS & 1
  if (const KDef* kd = kdef(op)) return execKernel<K>(*kd, w);
#endif
#if C01_CATS & 2
  if (op == "mul") return execMul<K>(w);
#endif
#if C01_CATS & 4
  if (op == "leftmultiply" || op == "rightmultiply" || op == "leftmultiplyany" || op == "rightmultiplyany" || op == "multmatrix")
    return execMulInPlace<K>(op, w);
#endif
#if C01_CATS & 8
  if (op == "transposed" || op == "multtm") return execUnaryMat<K>(op, w);
#endif
#if C01_CATS & 16
  if (has(MATVS, op)) return execMatVS<K>(op, w);
#endif
#if C01_CATS & 32
  if (has(VECOPS, op)) return execVec<K>(op, w);
#endif
#if C01_CATS & 64
  if (has(M11OPS, op)) return execM11<K>(op, w);
  if (has(MULTOPS, op)) return execMultAssign<K>(op, w);
  if (op == "assign" || op == "vassign") return execAssign<K>(op, w);
#endif
  return badOp("unknown op " + op);
}

#ifndef C01_FIELDS
#define C01_FIELDS 15
#endif

static Result execField(const std::vector<std::string>& w, const std::string& line) {
  try {
#if C01_FIELDS & 1
    if (w[0] == "Z") return execK<int>(w, line);
#endif
#if C01_FIELDS & 2
    if (w[0] == "D") return execK<double>(w, line);
#endif
#if C01_FIELDS & 4
    if (w[0] == "C") return execK<CD>(w, line);
#endif
#if C01_FIELDS & 8
    if (w[0] == "P") return execK<GF>(w, line);
#endif
  } catch (Dune::Exception& e) {
    return Result{"ERR:Dune", std::string("FAIL dune exception: ") + e.what()};
  }
  return badOp("field " + w[0]);
}
Result exec(const std::string& line) {
  auto w = words(line);
  if (w.size() < 3) return badOp("malformed line");
  stat("field_" + w[0]);
  viewIncoherent() = false;
  Result r = execField(w, line);
  if (viewIncoherent() && r.oracle.rfind("ok", 0) == 0)
    r.oracle = "FAIL a scalar view operand no longer shows the scalar variable it was created from";
  return r;
}

// ---- generator -------------------------------------------------------------------------------------------------------
struct Gen {
  Rng& r;
  char K;
  int W() const { return K == 'C' ? 2 : 1; }
  long comp() {
    if (K == 'P') {
      switch (r.below(6)) {
        case 0: return 0;
        case 1: return 1;
        case 2: return GF::P - 1 - (long)r.below(2);
        case 3: return (long)r.below(10);
        default: return (long)r.below(GF::P);
      }
    }
    switch (r.below(5)) {
      case 0: return 0;
      case 1: return r.coin() ? 1 : -1;
      default: return r.range(-5, 5);
    }
  }
  std::string scalars(int n) {
    std::vector<long> v;
    for (int i = 0; i < n * W(); ++i) v.push_back(comp());
    return listStr(v);
  }
  std::string scalarsFrom(const std::vector<long>& v) { return listStr(v); }
  std::string mat(const std::string& rep, int rr, int cc) {
    std::string base = rep.size() == 4 ? rep.substr(2) : rep;
    int cnt = base == "DG" ? rr : rr * cc;
    return rep + " " + std::to_string(rr) + " " + std::to_string(cc) + " " + scalars(cnt);
  }
  std::string vec(const std::string& kind, int n) { return kind + " " + std::to_string(n) + " " + scalars(n); }
  int dim(const std::string& base) {
    int mx = maxDim(base);
    return r.coin(1, 3) ? 1 + (int)r.below(std::min(mx, 2)) : 1 + (int)r.below(mx);
  }
};

// an object history: objects of one size family (so that most pairs are compatible), then 1..8 operations drawn among
// those that `sq::opOk` accepts for the declared objects
static std::string genSeq(Rng& r, Gen& g) {
  using namespace sq;
  for (;;) {
    std::vector<Decl> d;
    std::ostringstream os;
    os << g.K << " seq";
    int fam = r.below(20) < 11 ? 1 : r.coin(2, 3) ? 2 : 3;
    int rr = 1 + (int)r.below(3), cc = 1 + (int)r.below(3);   // family 3: shapes rr x cc, rr x rr, cc x cc; vectors of size rr / cc
    int nobj = 2 + (int)r.below(4);
    auto put = [&](const std::string& kind, int a, int b) {
      Decl q; q.kind = kind; q.r = a; q.c = b;
      if (!declShape(q)) return;
      d.push_back(q);
      if (q.isVec) os << " " << g.vec(kind, b); else os << " " << g.mat(kind, a, b);
    };
    for (int i = 0; i < nobj; ++i) {
      static const std::vector<std::string> p1 = {"SC", "SC", "SC", "SCC", "FV", "FV", "DV", "SV", "SV", "SV", "SVC", "FM", "FM", "DM", "TV", "TV"};
      static const std::vector<std::string> p2 = {"FV", "FV", "DV", "DV", "FM", "FM", "DM", "DG", "DG", "TV", "TV"};
      static const std::vector<std::string> p3 = {"DVr", "DVc", "DVc", "FVc", "DMrc", "DMrc", "DMcc", "DMrr", "TV", "TV"};
      std::string k = r.pick(fam == 1 ? p1 : fam == 2 ? p2 : p3);
      if (k == "TV") {
        std::vector<int> cand;
        for (size_t j = 0; j < d.size(); ++j)
          if (!d[j].isVec && !d[j].isTV && (d[j].tag == mFM22 || d[j].tag == mDM || d[j].tag == mDG2 || d[j].tag == mSV)) cand.push_back((int)j);
        if (cand.empty()) { --i; if (r.coin(1, 4)) ++i; continue; }
        Decl q; q.kind = r.coin() ? "TV" : "TW"; q.isTV = true; q.wraps = cand[r.below(cand.size())]; q.r = d[q.wraps].r; q.c = d[q.wraps].c;
        d.push_back(q);
        os << " " << q.kind << " " << q.wraps;
      } else if (fam == 1) put(k, 1, 1);
      else if (fam == 2) { if (k == "FV" || k == "DV") put(k, 1, 2); else put(k, 2, 2); }
      else if (k == "DVr") put("DV", 1, rr);
      else if (k == "DVc") put("DV", 1, cc);
      else if (k == "FVc") put("FV", 1, cc);
      else if (k == "DMrc") put("DM", rr, cc);
      else if (k == "DMcc") put("DM", cc, cc);
      else put("DM", rr, rr);
    }
    if (d.size() < 2) continue;
    static const std::vector<std::string> names = {"asg", "asg", "asg", "asg", "fill", "add", "add", "sub", "axpy", "scale", "lmul", "rmul",
                                                   "kern", "kern", "kern", "kern", "rasg", "rasg", "raxpy"};
    int nops = 1 + (int)r.below(8), made = 0;
    const int n = (int)d.size();
    std::ostringstream ops;
    // bound of the absolute value of the components every object can hold (generated components are within +-5): operations
    // that could leave the range in which int / double arithmetic is exact are not generated (repeated squaring grows fast)
    std::vector<double> mag(d.size(), 5.0);
    const double cw = g.K == 'C' ? 2.0 : 1.0, magLimit = g.K == 'P' ? 1e300 : 2e8;
    auto magOf = [&](int i) { return d[i].isTV ? mag[d[i].wraps] : mag[i]; };
    auto newMag = [&](const Op& o) {
      if (o.kd) { const Decl& A = d[o.a]; return magOf(o.y) + cw * 5.0 * cw * std::max(A.r, A.c) * magOf(o.a) * magOf(o.x); }
      switch (o.kind) {
        case oAsg: return magOf(o.s);
        case oFill: return 5.0;
        case oAdd: case oSub: return magOf(o.t) + magOf(o.s);
        case oAxpy: case oRaxpy: return magOf(o.t) + cw * 5.0 * magOf(o.s);
        case oScale: return cw * 5.0 * magOf(o.t);
        case oLmul: case oRmul: return cw * std::max(d[o.t].r, d[o.t].c) * magOf(o.t) * magOf(o.s);
        case oRasg: return std::max(magOf(o.t), magOf(o.s));
      }
      return magOf(o.t);
    };
    for (int i = 0; i < nops; ++i) {
      for (int attempt = 0; attempt < 12; ++attempt) {
        // draw the operation, then one of the operand tuples it is executed for
        Op o; o.name = r.pick(names);
        std::vector<Op> cand;
        if (o.name == "kern") {
          o.kd = &KDEFS[r.below(11)];
          for (o.a = 0; o.a < n; ++o.a) {
            if (d[o.a].isTV) o.kd = &KDEFS[o.kd->tr == 'N' ? 0 : 1];   // a view offers mv / mtv
            for (o.x = 0; o.x < n; ++o.x) for (o.y = 0; o.y < n; ++o.y) if (opOk(d, o)) cand.push_back(o);
          }
        } else {
          o.kind = o.name == "asg" ? oAsg : o.name == "fill" ? oFill : o.name == "add" ? oAdd : o.name == "sub" ? oSub : o.name == "axpy" ? oAxpy
                 : o.name == "scale" ? oScale : o.name == "lmul" ? oLmul : o.name == "rmul" ? oRmul : o.name == "rasg" ? oRasg : oRaxpy;
          const bool unary = o.kind == oFill || o.kind == oScale, rows = o.kind == oRasg || o.kind == oRaxpy;
          for (o.t = 0; o.t < n; ++o.t)
            for (o.s = 0; o.s < (unary ? 1 : n); ++o.s) {
              if (rows) { o.i = (int)r.below(std::max(1, d[o.t].r)); o.j = (int)r.below(std::max(1, d[o.s].r)); }
              if (opOk(d, o)) cand.push_back(o);
            }
        }
        if (cand.empty()) continue;
        if (!o.kd && o.kind != oFill && o.kind != oScale) {
          // the object as its own argument (`A += A`, `A.rightmultiply(A)`): one binary operation out of seven when there
          // is another choice, otherwise one draw out of three (a self-argument tuple is compatible more often than a pair)
          std::vector<Op> selfs, others;
          for (auto& q : cand) (q.s == q.t ? selfs : others).push_back(q);
          if (!selfs.empty() && !others.empty()) cand = r.coin(1, 7) ? selfs : others;
          else if (others.empty() && !r.coin(1, 3)) continue;
        }
        if (o.kd && r.coin()) {   // prefer a view as the matrix operand when one is available
          std::vector<Op> views;
          for (auto& q : cand) if (d[q.a].isTV) views.push_back(q);
          if (!views.empty()) cand = views;
        }
        o = cand[r.below(cand.size())];
        {
          double m = newMag(o);
          if (m > magLimit) { stat("gen_seq_magnitude_skip"); continue; }
          mag[o.kd ? o.y : o.t] = m;
        }
        std::ostringstream t;
        if (o.kd) t << o.kd->name << " " << o.a << " " << g.scalars(1) << " " << o.x << " " << o.y;
        else if (o.kind == oFill || o.kind == oScale) t << o.name << " " << o.t << " " << g.scalars(1);
        else if (o.kind == oAxpy) t << o.name << " " << o.t << " " << g.scalars(1) << " " << o.s;
        else if (o.kind == oRasg) t << o.name << " " << o.t << " " << o.i << " " << o.s << " " << o.j;
        else if (o.kind == oRaxpy) t << o.name << " " << o.t << " " << o.i << " " << g.scalars(1) << " " << o.s << " " << o.j;
        else t << o.name << " " << o.t << " " << o.s;
        ops << (made ? ";" : "") << t.str();
        ++made;
        break;
      }
    }
    if (!made) continue;
    os << " : " << ops.str();
    return os.str();
  }
}

static std::string genOnce(Rng& rng) {
  static const char FIELDS[] = {'Z', 'D', 'C', 'C', 'P', 'C'};
  Gen g{rng, FIELDS[rng.below(6)]};
#if C01_CATS & 128
#ifndef C01_SEQ_PCT
#define C01_SEQ_PCT 10   // share of object histories among the generated cases
#endif
  if (rng.below(100) < C01_SEQ_PCT) return genSeq(rng, g);
#endif
  std::ostringstream os;
  os << g.K << " ";
  auto& r = rng;
  auto baseOf = [](const std::string& rep) { return rep.size() == 4 ? rep.substr(2) : rep; };
  auto shapeFor = [&](const std::string& rep, int& rr, int& cc) {
    std::string b = baseOf(rep);
    rr = g.dim(b); cc = g.dim(b);
    if (b == "DG") cc = rr;
    if (b == "SV") rr = cc = 1;
  };
  auto isT = [](const std::string& rep) { return rep.size() == 4 && rep.substr(0, 2) != "T2"; };   // logically transposed?
  int cat = (int)r.below(100);
  if (cat < 36) {
    // kernels
    static const std::vector<std::string> reps = {"FM", "FM", "FM", "FM", "DM", "DM", "DG", "DG", "SV", "TCFM", "TCDM", "TCDG",
                                                  "TVFM", "TVDM", "TVDG", "TVSV", "T2FM", "T2DM", "T2DG", "T2SV"};
    std::string rep = r.pick(reps);
    bool view = rep.substr(0, 2) == "TV" || rep.substr(0, 2) == "T2";
    const KDef& kd = view ? KDEFS[r.below(2)] : KDEFS[r.below(11)];
    int rr, cc;
    shapeFor(rep, rr, cc);
    bool tr = isT(rep);
    int R = tr ? cc : rr, C = tr ? rr : cc;
    int xn = kd.tr == 'N' ? C : R, yn = kd.tr == 'N' ? R : C;
    std::string vk = baseOf(rep) == "DM" ? "DV" : "FV", vy = vk;
    if (vk == "FV" && R == 1 && C == 1 && r.coin()) vk = vy = "SC";
    // vector kinds are interchangeable: DynamicVector / mixed kinds with static-size matrices (instantiated shapes only)
    if ((rep == "FM" || rep == "TCFM") && mixedKindShape(R, C) && r.coin(1, 2)) {
      switch (r.below(3)) { case 0: vk = "DV"; vy = "DV"; break; case 1: vk = "FV"; vy = "DV"; break; default: vk = "DV"; vy = "FV"; }
    }
    os << kd.name << " " << g.mat(rep, rr, cc) << " " << g.scalars(1) << " " << g.vec(vk, xn) << " " << g.vec(vy, yn);
    return os.str();
  }
  if (cat < 53) {
    // operator* on pairs of representations
    static const std::vector<std::pair<std::string, std::string>> pairs = {
        {"FM", "FM"}, {"FM", "FM"}, {"FM", "DG"}, {"DG", "FM"}, {"DG", "DG"}, {"FM", "SV"}, {"SV", "FM"},
        {"FM", "TVFM"}, {"FM", "TVDG"}, {"FM", "TVDM"}, {"FM", "TVSV"}, {"DM", "TVDM"}, {"DM", "TVDM"}, {"DM", "TVFM"},
        {"DM", "TVDG"}, {"TCFM", "FM"}, {"FM", "TCFM"}, {"TCDM", "TVDM"}, {"FM", "TCDG"}, {"TCDG", "FM"}, {"TCFM", "TVFM"},
        // a view on the left (fmatrix.hh OtherMatrix * FieldMatrix), views of views
        {"TVFM", "FM"}, {"TVFM", "FM"}, {"TVDG", "FM"}, {"TVSV", "FM"}, {"FM", "T2DG"}, {"FM", "T2DG"}, {"FM", "T2SV"}};
    auto pr = r.pick(pairs);
    // logical shapes R x Kk times Kk x C
    auto lim = [&](const std::string& rep) { return maxDim(baseOf(rep)); };
    int mx = std::min(lim(pr.first), lim(pr.second));
    int Kk = 1 + (int)r.below(mx);
    int R = 1 + (int)r.below(lim(pr.first)), C = 1 + (int)r.below(lim(pr.second));
    if (baseOf(pr.first) == "DG" || baseOf(pr.first) == "SV") R = Kk;
    if (baseOf(pr.second) == "DG" || baseOf(pr.second) == "SV") C = Kk;
    if (baseOf(pr.first) == "SV" || baseOf(pr.second) == "SV") { Kk = 1; if (baseOf(pr.first) == "SV") R = 1; if (baseOf(pr.second) == "SV") C = 1; }
    auto put = [&](const std::string& rep, int lr, int lc) {
      bool tr = isT(rep);
      return g.mat(rep, tr ? lc : lr, tr ? lr : lc);
    };
    os << "mul " << put(pr.first, R, Kk) << " " << put(pr.second, Kk, C);
    return os.str();
  }
  if (cat < 62) {
    static const std::vector<std::string> ops = {"leftmultiply", "rightmultiply", "leftmultiplyany", "rightmultiplyany", "multmatrix"};
    std::string op = r.pick(ops);
    bool any = op != "leftmultiply" && op != "rightmultiply";
    std::string ra = any ? "FM" : r.pick(std::vector<std::string>{"FM", "FM", "DM", "SV"});
    std::string rm = any ? "FM" : r.pick(std::vector<std::string>{"FM", "FM", "DM", "SV"});
    int mx = std::min(maxDim(ra), maxDim(rm));
    int rr = 1 + (int)r.below(mx), cc = 1 + (int)r.below(mx), l = 1 + (int)r.below(mx);
    if (ra == "SV" || rm == "SV") rr = cc = l = 1;
    if (op == "leftmultiply") os << op << " " << g.mat(ra, rr, cc) << " " << g.mat(rm, rr, rr);
    else if (op == "rightmultiply") os << op << " " << g.mat(ra, rr, cc) << " " << g.mat(rm, cc, cc);
    else if (op == "leftmultiplyany") os << op << " " << g.mat(ra, rr, cc) << " " << g.mat(rm, l, rr);
    else os << op << " " << g.mat(ra, rr, cc) << " " << g.mat(rm, cc, l);
    return os.str();
  }
  if (cat < 67) {
    if (r.coin(1, 5)) { int rr, cc; shapeFor("FM", rr, cc); os << "multtm " << g.mat("FM", rr, cc); return os.str(); }
    static const std::vector<std::string> reps = {"FM", "FM", "DM", "DM", "DG", "SV", "TVFM", "TVDM", "TVDG", "TVSV", "TCFM", "TCDM", "TCDG"};
    std::string rep = r.pick(reps);
    int rr, cc;
    shapeFor(rep, rr, cc);
    os << "transposed " << g.mat(rep, rr, cc);
    return os.str();
  }
  // exact quotient helper: scalars q (n of them) and a non-zero divisor k; returns the products q*k
  auto mulScalars = [&](const std::vector<long>& q, const std::vector<long>& k) {
    std::vector<long> out;
    if (g.K == 'C') for (size_t i = 0; i + 1 < q.size(); i += 2) { out.push_back(q[i] * k[0] - q[i + 1] * k[1]); out.push_back(q[i] * k[1] + q[i + 1] * k[0]); }
    else if (g.K == 'P') for (long x : q) out.push_back(x * k[0] % GF::P);
    else for (long x : q) out.push_back(x * k[0]);
    return out;
  };
  auto rawScalars = [&](int n) { std::vector<long> v; for (int i = 0; i < n * g.W(); ++i) v.push_back(g.comp()); return v; };
  auto nonzero = [&]() {
    std::vector<long> k;
    do { k = rawScalars(1); } while (std::all_of(k.begin(), k.end(), [](long x) { return x == 0; }) ||
                                      (g.K == 'C' && !smithExact(k[0], k[1]) && !r.coin(1, 8)));
    return k;
  };
  if (cat < 75) {
    // FieldMatrix<K,1,1> / scalar mixes, the FMatrixHelp matrix-vector helpers, conversions between representations
    int sub = (int)r.below(10);
    if (sub < 3) {
      std::string op = r.pick(M11OPS);
      os << op << " " << g.mat("FM", 1, 1);
      if (op != "m11_conv") os << " " << g.scalars(1);
      return os.str();
    }
    if (sub < 6) {
      std::string op = r.pick(MULTOPS);
      bool dyn = op == "multassign" && r.coin(1, 3);
      int rr, cc;
      shapeFor(dyn ? "DM" : "FM", rr, cc);
      bool tr = op == "multassignT" || op == "fmultT";
      os << op << " " << g.mat(dyn ? "DM" : "FM", rr, cc) << " " << g.vec(dyn ? "DV" : "FV", tr ? rr : cc);
      return os.str();
    }
    if (sub < 8) {
      std::string tgt = r.coin() ? "FM" : "DM";
      std::string src = r.pick(std::vector<std::string>{"FM", "DM", "DG", "DG", "SV"});
      int rr, cc;
      shapeFor(src, rr, cc);
      if (tgt == "FM" && src == "DM") { rr = cc = 1 + (int)r.below(4); }   // FieldMatrix = DynamicMatrix: square shapes are instantiated
      os << "assign " << tgt << " " << g.mat(src, rr, cc);
      return os.str();
    }
    {
      std::string tgt = r.coin() ? "FV" : "DV", src = r.coin() ? "FV" : "DV";
      int n = (tgt == "FV" || src == "FV") ? 1 + (int)r.below(4) : 1 + (int)r.below(6);
      os << "vassign " << tgt << " " << g.vec(src, n);
      return os.str();
    }
  }
  if (cat < 86) {
    std::string op = r.pick(MATVS);
    bool two = op == "madd" || op == "msub" || op == "mplus" || op == "mminus" || op == "maxpy" || op == "meq" || op == "mne";
    bool fmOnly = op == "mplus" || op == "mminus" || op == "mtimes" || op == "mltimes" || op == "mover";
    std::string ra = fmOnly ? "FM" : r.pick(std::vector<std::string>{"FM", "FM", "DM", "DM", "DG", "SV"});
    if (ra == "DG" && (op == "maxpy" || op == "mneg")) ra = "FM";
    std::string rb = ra;
    if (two && !fmOnly && ra != "DG") rb = r.pick(std::vector<std::string>{"FM", "DM", ra});
    if (ra == "SV" && rb != "SV") rb = r.coin() ? "FM" : "DM";
    int rr, cc;
    shapeFor(ra == "DM" && rb != "DM" ? rb : ra, rr, cc);
    if (ra == "SV" || rb == "SV") rr = cc = 1;
    if ((op == "madd" || op == "msub") && ra == "FM" && rr == 1 && cc == 1) rb = "FM";   // FieldMatrix<K,1,1> hides the generic += / -=
    bool div = op == "mdiv" || op == "mover";
    int cnt = ra == "DG" ? rr : rr * cc;
    std::string aStr, sStr = g.scalars(1);
    if (div) {
      auto k = nonzero();
      auto q = rawScalars(cnt);
      if (r.coin(1, 10)) aStr = listStr(q); else aStr = listStr(mulScalars(q, k));
      sStr = listStr(k);
      aStr = ra + " " + std::to_string(rr) + " " + std::to_string(cc) + " " + aStr;
    } else aStr = g.mat(ra, rr, cc);
    os << op << " " << aStr;
    if (op != "mneg" && !(two && op != "maxpy")) os << " " << sStr;
    if (two) {
      // equal operands are needed for == / != to be interesting
      if ((op == "meq" || op == "mne") && r.coin()) {
        std::string l = aStr.substr(aStr.find('['));
        if (r.coin(1, 3)) {   // differ in exactly one component
          std::vector<long> v = parseList(l);
          size_t idx = r.below(v.size());
          v[idx] = g.K == 'P' ? (v[idx] + 1) % GF::P : v[idx] + 1;
          l = listStr(v);
        }
        os << " " << rb << " " << rr << " " << cc << " " << l;
      } else os << " " << g.mat(rb, rr, cc);
    }
    return os.str();
  }
  {
    std::string op = r.pick(VECOPS);
    bool ordop = op.find("_lt_") != std::string::npos || op.find("_le_") != std::string::npos || op.find("_gt_") != std::string::npos ||
                 op.find("_ge_") != std::string::npos;
    if (ordop && (g.K == 'C' || g.K == 'P')) { g.K = r.coin() ? 'Z' : 'D'; os.str(""); os << g.K << " "; }   // ordered fields only
    bool two = op == "vadd" || op == "vsub" || op == "vplus" || op == "vminus" || op == "vaxpy" || op == "veq" || op == "vne" ||
               op == "vdotT" || op == "vdot" || op == "fdot" || op == "fdotT" || op == "v1_lt_v1" || op == "v1_le_v1" ||
               op == "v1_gt_v1" || op == "v1_ge_v1";
    bool one = op.find("v1") != std::string::npos;
    bool fvOnly = op == "vtimes" || op == "vltimes" || op == "vover";
    std::string ka = (one || fvOnly) ? "FV" : r.coin() ? "FV" : "DV";
    std::string kb = r.coin() ? "FV" : "DV";
    int n = one ? 1 : ka == "FV" || (two && kb == "FV") ? 1 + (int)r.below(4) : 1 + (int)r.below(6);
    if ((op == "fdot" || op == "fdotT") && r.coin(1, 3)) { ka = kb = "SC"; n = 1; }
    if (op == "vneg" && r.coin(1, 3)) { ka = "SC"; n = 1; }   // unary minus of the view asVector(s)
    if ((op == "vplus" || op == "vminus") && r.coin(1, 3)) { ka = "SC"; n = 1; }   // asVector(s) + v, asVector(s) - v
    bool div = op == "vdiv" || op == "vover" || op == "v1_over_s" || op == "s_over_v1";
    std::string aStr, sStr = g.scalars(1);
    if (div) {
      auto k = nonzero();
      auto q = rawScalars(n);
      if (op == "s_over_v1") { q = nonzero(); k = rawScalars(1); aStr = listStr(q); sStr = listStr(mulScalars(q, k)); }
      else { aStr = r.coin(1, 10) ? listStr(q) : listStr(mulScalars(q, k)); sStr = listStr(k); }
      aStr = ka + " " + std::to_string(n) + " " + aStr;
    } else aStr = g.vec(ka, n);
    os << op << " " << aStr;
    if ((!two && op != "vneg" && op != "v1_conv") || op == "vaxpy") os << " " << sStr;
    if (two) {
      if (one) kb = "FV";
      if ((op == "veq" || op == "vne" || ordop) && r.coin()) {
        std::string l = aStr.substr(aStr.find('['));
        if (r.coin(1, 3)) {
          std::vector<long> v = parseList(l);
          size_t idx = r.below(v.size());
          v[idx] = g.K == 'P' ? (v[idx] + 1) % GF::P : v[idx] + 1;
          l = listStr(v);
        }
        os << " " << kb << " " << n << " " << l;
      } else os << " " << g.vec(kb, n);
    }
    return os.str();
  }
}

// every FieldMatrix operand must have one of the static shapes instantiated for its field
static bool shapesInstantiated(const std::string& line) {
  auto w = words(line);
  auto num = [](const std::string& t) { return !t.empty() && std::isdigit((unsigned char)t[0]); };
  for (size_t i = 0; i + 2 < w.size(); ++i)
    if ((w[i] == "FM" || w[i] == "TCFM" || w[i] == "TVFM" || w[i] == "T2FM") && num(w[i + 1]) && num(w[i + 2]))
      if (!shapeAllowed(w[0][0], std::stoi(w[i + 1]), std::stoi(w[i + 2]))) return false;
  // rarely used combinations are instantiated for the `rareShape`s only
  for (size_t i = 0; i + 2 < w.size(); ++i)
    if ((w[i] == "T2FM" || (i == 2 && w[1] == "mul" && w[i] == "TVFM")) && num(w[i + 1]) && num(w[i + 2]))
      if (!rareShape(std::stoi(w[i + 1]), std::stoi(w[i + 2]))) return false;
  // FieldMatrix * view-of-a-view: rare shapes of the left factor
  if (w.size() >= 10 && w[1] == "mul" && w[2] == "FM" && w[6].substr(0, 2) == "T2" && !rareShape(std::stoi(w[3]), std::stoi(w[4]))) return false;
  // assign FM <source>: the target FieldMatrix has the source's shape
  if (w.size() >= 6 && w[1] == "assign" && w[2] == "FM" && num(w[4]) && num(w[5]))
    if (!shapeAllowed(w[0][0], std::stoi(w[4]), std::stoi(w[5]))) return false;
  return true;
}
std::string gen(Rng& rng, long, const Args&) {
  for (;;) {
    std::string l = genOnce(rng);
    if (shapesInstantiated(l)) return l;
    stat("gen_retry_shape");
  }
}

int main(int argc, char** argv) { return dv::run(argc, argv, gen, exec); }
