// Common scaffolding of the correspondence harnesses (DESIGN.md 2.2/2.3).
//
//   h_cxx --seed S --cases N --tier quick|thorough --out BASE     generate N cases
//   h_cxx --replay FILE --out BASE                                execute the op lines of FILE
//
// For every case the harness writes, flushing each line so a sanitizer abort identifies the op:
//   BASE.ops     the operation line (input of the Lean model driver as well)
//   BASE.impl    the canonicalised answer of the real dune-common code
//   BASE.oracle  "ok" | "ok trivial" | "FAIL <what the independent property oracle saw>"
//   BASE.stats   JSON object of counters describing the generated distribution
#ifndef DV_HCOMMON_HH
#define DV_HCOMMON_HH
#include <cstdint>
#include <cstdlib>
#include <cstring>
#include <fstream>
#include <functional>
#include <iostream>
#include <map>
#include <sstream>
#include <string>
#include <vector>

namespace dv {

struct Rng {
  uint64_t s;
  // the seed is hashed so that neighbouring seeds give unrelated streams (not shifted copies of one stream)
  explicit Rng(uint64_t seed) : s(0) {
    uint64_t z = seed + 0x9E3779B97F4A7C15ull;
    z = (z ^ (z >> 30)) * 0xBF58476D1CE4E5B9ull;
    z = (z ^ (z >> 27)) * 0x94D049BB133111EBull;
    s = (z ^ (z >> 31)) * 0xD6E8FEB86659FD93ull + 0x1234567ull;
  }
  uint64_t next() {  // splitmix64
    uint64_t z = (s += 0x9E3779B97F4A7C15ull);
    z = (z ^ (z >> 30)) * 0xBF58476D1CE4E5B9ull;
    z = (z ^ (z >> 27)) * 0x94D049BB133111EBull;
    return z ^ (z >> 31);
  }
  // uniform in [0,n)
  uint64_t below(uint64_t n) { return n ? next() % n : 0; }
  long range(long lo, long hi) { return lo + (long)below((uint64_t)(hi - lo + 1)); }  // inclusive
  bool coin(int num = 1, int den = 2) { return (long)below(den) < num; }
  template <class T> const T& pick(const std::vector<T>& v) { return v[below(v.size())]; }
};

struct Result {
  std::string impl;
  std::string oracle = "ok";
};

inline std::map<std::string, long>& stats() {
  static std::map<std::string, long> s;
  return s;
}
inline void stat(const std::string& k, long by = 1) { stats()[k] += by; }

inline std::vector<std::string> split(const std::string& s, char sep) {
  std::vector<std::string> out;
  std::string cur;
  for (char c : s) {
    if (c == sep) { out.push_back(cur); cur.clear(); }
    else cur.push_back(c);
  }
  out.push_back(cur);
  return out;
}
inline std::vector<std::string> words(const std::string& s) {
  std::vector<std::string> out;
  std::istringstream is(s);
  std::string w;
  while (is >> w) out.push_back(w);
  return out;
}
template <class It> std::string join(It b, It e, const std::string& sep) {
  std::ostringstream os;
  bool first = true;
  for (; b != e; ++b) { if (!first) os << sep; first = false; os << *b; }
  return os.str();
}
template <class C> std::string listStr(const C& c) {
  return "[" + join(c.begin(), c.end(), ",") + "]";
}
// parse "[1,2,3]" (also "[]")
inline std::vector<long> parseList(const std::string& s) {
  std::vector<long> out;
  std::string t = s;
  if (!t.empty() && t.front() == '[') t = t.substr(1);
  if (!t.empty() && t.back() == ']') t.pop_back();
  if (t.empty()) return out;
  for (auto& w : split(t, ',')) out.push_back(std::stol(w));
  return out;
}

struct Args {
  uint64_t seed = 1;
  long cases = 1000;
  std::string tier = "quick";
  std::string replay;
  std::string out = "build/out";
  std::map<std::string, std::string> extra;
  long get(const std::string& k, long dflt) const {
    auto it = extra.find(k);
    return it == extra.end() ? dflt : std::stol(it->second);
  }
  std::string gets(const std::string& k, const std::string& dflt) const {
    auto it = extra.find(k);
    return it == extra.end() ? dflt : it->second;
  }
};

inline Args parseArgs(int argc, char** argv) {
  Args a;
  for (int i = 1; i < argc; ++i) {
    std::string k = argv[i];
    std::string v = (i + 1 < argc) ? argv[i + 1] : "";
    if (k == "--seed") { a.seed = std::stoull(v); ++i; }
    else if (k == "--cases") { a.cases = std::stol(v); ++i; }
    else if (k == "--tier") { a.tier = v; ++i; }
    else if (k == "--replay") { a.replay = v; ++i; }
    else if (k == "--out") { a.out = v; ++i; }
    else if (k.rfind("--", 0) == 0) { a.extra[k.substr(2)] = v; ++i; }
  }
  return a;
}

inline void writeStats(const std::string& base) {
  std::ofstream st(base + ".stats");
  st << "{";
  bool first = true;
  for (auto& kv : stats()) {
    if (!first) st << ",";
    first = false;
    st << "\"" << kv.first << "\":" << kv.second;
  }
  st << "}\n";
}

// gen(rng, index) -> op line ; exec(op line) -> Result.   Sequential (non-MPI) main loop.
inline int run(int argc, char** argv,
               const std::function<std::string(Rng&, long, const Args&)>& gen,
               const std::function<Result(const std::string&)>& exec) {
  Args a = parseArgs(argc, argv);
  std::ofstream impl(a.out + ".impl"), oracle(a.out + ".oracle");
  auto doOne = [&](const std::string& line) {
    Result r;
    try {
      r = exec(line);
    } catch (std::exception& e) {
      r.impl = "HARNESS-EXCEPTION";
      r.oracle = std::string("FAIL unexpected exception escaped: ") + e.what();
    } catch (...) {
      r.impl = "HARNESS-EXCEPTION";
      r.oracle = "FAIL unexpected non-std exception escaped";
    }
    for (auto& c : r.impl) if (c == '\n') c = ' ';
    for (auto& c : r.oracle) if (c == '\n') c = ' ';
    impl << r.impl << "\n" << std::flush;
    oracle << r.oracle << "\n" << std::flush;
  };
  if (!a.replay.empty()) {
    std::ifstream in(a.replay);
    std::string line;
    while (std::getline(in, line)) doOne(line);
  } else {
    std::ofstream ops(a.out + ".ops");
    Rng rng(a.seed);
    for (long i = 0; i < a.cases; ++i) {
      std::string line = gen(rng, i, a);
      ops << line << "\n" << std::flush;
      doOne(line);
    }
  }
  writeStats(a.out);
  return 0;
}

}  // namespace dv
#endif
