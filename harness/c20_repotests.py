# development aid (not part of the registered check): VERIF_REPO=<tree> /repo/_build/dune-env/bin/python -S -E harness/c20_repotests.py
# runs the repo's own python tests (dune/python/test/pythontests.py, tuplevectortest.py) against the package
# the C20 harness builds from $VERIF_REPO (DirectBuilder instead of dune-py)
import sys, os, runpy, traceback
sys.path.insert(0, "/verif/harness")
sys.argv = ["x"]
import c20_py as H
H.prepare(need_sizes=[2,3], need_shapes=[])
import dune.packagemetadata
inc = os.path.join("/tmp/c20_repotests_inc", H.KEY)
os.makedirs(os.path.join(inc, "python/dune"), exist_ok=True)
lnk = os.path.join(inc, "python/dune/generated")
if not os.path.islink(lnk):
    os.symlink(H.GEN, lnk)
H.BASEFLAGS.append("-I" + inc)
dune.packagemetadata.getDunePyDir = lambda: H.ROOT
from dune.generator.exceptions import CompileError
_load = H.BUILDER.load
def load(*a, **k):
    try:
        return _load(*a, **k)
    except RuntimeError as e:
        if "C20 build failed" in str(e):
            raise CompileError(str(e)[:200])
        raise
H.BUILDER.load = load
rc = 0
for f in ["pythontests.py", "tuplevectortest.py"]:
    p = os.path.join(H.REPO, "dune/python/test", f)
    try:
        runpy.run_path(p, run_name="__main__")
        print("REPOTEST", f, "PASS")
    except BaseException as e:
        traceback.print_exc()
        print("REPOTEST", f, "FAIL", type(e).__name__, e)
        rc = 1
sys.stdout.flush(); os._exit(rc)
