// Schedule steering through the MPI profiling interface (DESIGN.md 2.6).
// Linked into the MPI harnesses; wraps the calls whose outcome MPI leaves open when several requests/messages
// are ready (MPI_Waitany, MPI_Testsome, MPI_Testany, MPI_Probe/MPI_Iprobe/MPI_Recv with MPI_ANY_SOURCE) and picks
// among the *enabled* alternatives with a seeded PRNG.  Every outcome produced is one MPI itself may produce.
// dv_sched_seed(0) switches steering off (pass-through).
#include <mpi.h>
#include <unistd.h>

#include <cstdint>
#include <cstdlib>
#include <vector>

static uint64_t g_state = 0;
static long g_choices = 0, g_multi = 0;

extern "C" void dv_sched_seed(uint64_t s) {
  int rank = 0, init = 0;
  MPI_Initialized(&init);
  if (init) PMPI_Comm_rank(MPI_COMM_WORLD, &rank);
  g_state = s ? (s * 0x9E3779B97F4A7C15ull + 0x632BE59BD9B4E019ull * (uint64_t)(rank + 1)) : 0;
}
extern "C" long dv_sched_choices() { return g_choices; }
extern "C" long dv_sched_multi() { return g_multi; }  // choices with more than one enabled alternative

static uint64_t rnd() {
  uint64_t z = (g_state += 0x9E3779B97F4A7C15ull);
  z = (z ^ (z >> 30)) * 0xBF58476D1CE4E5B9ull;
  z = (z ^ (z >> 27)) * 0x94D049BB133111EBull;
  return z ^ (z >> 31);
}
static void lingering() {  // give other messages a chance to arrive so that there is something to choose from
  if (rnd() % 3 == 0) usleep(200 + rnd() % 1500);
}

static std::vector<int> completed(int count, MPI_Request reqs[], int* active) {
  std::vector<int> done;
  *active = 0;
  for (int i = 0; i < count; ++i) {
    if (reqs[i] == MPI_REQUEST_NULL) continue;
    ++*active;
    int flag = 0;
    PMPI_Request_get_status(reqs[i], &flag, MPI_STATUS_IGNORE);
    if (flag) done.push_back(i);
  }
  return done;
}

extern "C" int MPI_Waitany(int count, MPI_Request reqs[], int* index, MPI_Status* status) {
  if (!g_state) return PMPI_Waitany(count, reqs, index, status);
  lingering();
  for (;;) {
    int active = 0;
    std::vector<int> done = completed(count, reqs, &active);
    if (active == 0) { *index = MPI_UNDEFINED; return MPI_SUCCESS; }
    if (!done.empty()) {
      ++g_choices;
      if (done.size() > 1) ++g_multi;
      int i = done[rnd() % done.size()];
      *index = i;
      return PMPI_Wait(&reqs[i], status);
    }
    usleep(50);
  }
}

extern "C" int MPI_Testany(int count, MPI_Request reqs[], int* index, int* flag, MPI_Status* status) {
  if (!g_state) return PMPI_Testany(count, reqs, index, flag, status);
  int active = 0;
  std::vector<int> done = completed(count, reqs, &active);
  if (active == 0) { *flag = 1; *index = MPI_UNDEFINED; return MPI_SUCCESS; }
  if (done.empty() || rnd() % 4 == 0) { *flag = 0; *index = MPI_UNDEFINED; return MPI_SUCCESS; }
  ++g_choices;
  if (done.size() > 1) ++g_multi;
  int i = done[rnd() % done.size()];
  *index = i;
  *flag = 1;
  return PMPI_Wait(&reqs[i], status);
}

extern "C" int MPI_Testsome(int incount, MPI_Request reqs[], int* outcount, int indices[], MPI_Status statuses[]) {
  if (!g_state) return PMPI_Testsome(incount, reqs, outcount, indices, statuses);
  lingering();
  int active = 0;
  std::vector<int> done = completed(incount, reqs, &active);
  if (active == 0) { *outcount = MPI_UNDEFINED; return MPI_SUCCESS; }
  // random subset (possibly empty: "nothing completed yet" is always a legal answer), in random order
  std::vector<int> pick;
  for (int i : done) if (rnd() % 3 != 0) pick.push_back(i);
  for (size_t i = pick.size(); i > 1; --i) std::swap(pick[i - 1], pick[rnd() % i]);
  if (!done.empty()) { ++g_choices; if (done.size() > 1) ++g_multi; }
  *outcount = (int)pick.size();
  for (size_t j = 0; j < pick.size(); ++j) {
    indices[j] = pick[j];
    int rc = PMPI_Wait(&reqs[pick[j]], statuses == MPI_STATUSES_IGNORE ? MPI_STATUS_IGNORE : &statuses[j]);
    if (rc != MPI_SUCCESS) return rc;
  }
  return MPI_SUCCESS;
}

// choose a source that has a matching message pending, scanning the ranks from a random start
static int pickSource(int tag, MPI_Comm comm, MPI_Status* st, bool block) {
  int size = 1;
  PMPI_Comm_size(comm, &size);
  for (;;) {
    std::vector<int> ready;
    for (int s = 0; s < size; ++s) {
      int flag = 0;
      PMPI_Iprobe(s, tag, comm, &flag, MPI_STATUS_IGNORE);
      if (flag) ready.push_back(s);
    }
    if (!ready.empty()) {
      ++g_choices;
      if (ready.size() > 1) ++g_multi;
      int s = ready[rnd() % ready.size()];
      int flag = 0;
      PMPI_Iprobe(s, tag, comm, &flag, st);
      return s;
    }
    if (!block) return -1;
    usleep(50);
  }
}

extern "C" int MPI_Probe(int source, int tag, MPI_Comm comm, MPI_Status* status) {
  int inter = 0;
  if (g_state) PMPI_Comm_test_inter(comm, &inter);
  if (!g_state || source != MPI_ANY_SOURCE || inter) return PMPI_Probe(source, tag, comm, status);
  lingering();
  int s = pickSource(tag, comm, MPI_STATUS_IGNORE, true);
  return PMPI_Probe(s, tag, comm, status);
}

extern "C" int MPI_Iprobe(int source, int tag, MPI_Comm comm, int* flag, MPI_Status* status) {
  int inter = 0;
  if (g_state) PMPI_Comm_test_inter(comm, &inter);
  if (!g_state || source != MPI_ANY_SOURCE || inter) return PMPI_Iprobe(source, tag, comm, flag, status);
  int s = pickSource(tag, comm, MPI_STATUS_IGNORE, false);
  if (s < 0 || rnd() % 4 == 0) { *flag = 0; return MPI_SUCCESS; }
  return PMPI_Iprobe(s, tag, comm, flag, status);
}

extern "C" int MPI_Recv(void* buf, int count, MPI_Datatype dt, int source, int tag, MPI_Comm comm, MPI_Status* status) {
  int inter = 0;
  if (g_state) PMPI_Comm_test_inter(comm, &inter);
  if (!g_state || source != MPI_ANY_SOURCE || inter) return PMPI_Recv(buf, count, dt, source, tag, comm, status);
  lingering();
  int s = pickSource(tag, comm, MPI_STATUS_IGNORE, true);
  return PMPI_Recv(buf, count, dt, s, tag, comm, status);
}
